CONSTANTS MaxVotes = 3 MaxPrep = 3
INIT Init
NEXT Next
INVARIANT Inv
CHECK_DEADLOCK FALSE
