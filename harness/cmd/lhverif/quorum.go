package main

import (
	"flag"
	"fmt"
	"math/rand"

	"github.com/orbs-network/lean-helix-go/services/interfaces"
	"github.com/orbs-network/lean-helix-go/services/quorum"
	"github.com/orbs-network/lean-helix-go/spec/types/go/primitives"
)

func init() { register("quorum", cmdQuorum) }

// idShape: how the abstract member index becomes a concrete id.  Ids are opaque byte strings of any length; two indices
// must never be confused whatever they look like.
//
//	0 short distinct ids                         1 40-byte ids that differ only in their last bytes (common 32-byte prefix)
//	2 ids that are prefixes of one another      3 ids that differ only by trailing zero bytes
//	4 one-byte ids and the empty id (index 0, an outsider)
var idShape int

func memberId(i int) primitives.MemberId {
	switch idShape {
	case 1:
		return primitives.MemberId(fmt.Sprintf("lean-helix-committee-member-with-long-id-%04d", i))
	case 2:
		b := make([]byte, i+1)
		for k := range b {
			b[k] = 'p'
		}
		return primitives.MemberId(b)
	case 3:
		b := append([]byte("zero-padded-member"), make([]byte, i)...)
		return primitives.MemberId(b)
	case 4:
		if i == 0 {
			return primitives.MemberId{}
		}
		return primitives.MemberId([]byte{byte(i)})
	}
	return primitives.MemberId(fmt.Sprintf("member-%03d", i))
}

func committeeOf(ws []uint64) []interfaces.CommitteeMember {
	out := make([]interfaces.CommitteeMember, len(ws))
	for i, w := range ws {
		out[i] = interfaces.CommitteeMember{Id: memberId(i + 1), Weight: primitives.MemberWeight(w)}
	}
	return out
}

func idsOf(ix []int) []primitives.MemberId {
	out := make([]primitives.MemberId, len(ix))
	for i, x := range ix {
		out[i] = memberId(x) // 0 and n+1.. are outsiders
	}
	return out
}

func limbsAll(ws []uint64) [][]int {
	out := make([][]int, len(ws))
	for i, w := range ws {
		out[i] = limbs(w)
	}
	return out
}

func quorumCall(out *ndjson, ws []uint64, ids []int) {
	defer func() {
		if rec := recover(); rec != nil {
			out.emit(obj{"op": "panic", "shape": idShape, "w": limbsAll(ws), "ids": ids})
		}
	}()
	com := committeeOf(ws)
	weights := quorum.GetWeights(com)
	isq, isqW, isqQ := quorum.IsQuorum(idsOf(ids), com)
	hh, hhW, hhB := quorum.HasHonest(idsOf(ids), com)
	out.emit(obj{"op": "call", "shape": idShape, "w": limbsAll(ws), "ids": ids,
		"q": limbs(uint64(quorum.CalcQuorumWeight(weights))), "f": limbs(uint64(quorum.CalcByzMaxWeight(weights))),
		"isq": isq, "isq_w": limbs(uint64(isqW)), "isq_q": limbs(uint64(isqQ)),
		"hh": hh, "hh_w": limbs(uint64(hhW)), "hh_b": limbs(uint64(hhB))})
}

func complement(n int, a []int) []int {
	in := map[int]bool{}
	for _, x := range a {
		in[x] = true
	}
	var out []int
	for i := 1; i <= n; i++ {
		if !in[i] {
			out = append(out, i)
		}
	}
	if out == nil {
		out = []int{}
	}
	return out
}

func quorumPair(out *ndjson, ws []uint64, a, b []int) {
	defer func() {
		if rec := recover(); rec != nil {
			out.emit(obj{"op": "panic", "shape": idShape, "w": limbsAll(ws), "a": a, "b": b})
		}
	}()
	com := committeeOf(ws)
	isqA, _, _ := quorum.IsQuorum(idsOf(a), com)
	isqB, _, _ := quorum.IsQuorum(idsOf(b), com)
	hhA, _, _ := quorum.HasHonest(idsOf(a), com)
	hhB, _, _ := quorum.HasHonest(idsOf(b), com)
	isqCA, _, _ := quorum.IsQuorum(idsOf(complement(len(ws), a)), com)
	out.emit(obj{"op": "pair", "shape": idShape, "w": limbsAll(ws), "a": a, "b": b,
		"isq_a": isqA, "isq_b": isqB, "hh_a": hhA, "hh_b": hhB, "isq_comp_a": isqCA})
}

// randIds draws an id multiset: members, duplicates, outsiders (0, n+1, n+2).
func randIds(r *rand.Rand, n int) []int {
	if r.Intn(12) == 0 { // as many (or more) distinct ids as the committee has members, most or all of them outsiders
		k := n + r.Intn(3)
		out := make([]int, 0, k)
		for i := 0; i < k; i++ {
			out = append(out, n+1+i)
		}
		if r.Intn(2) == 0 && n > 0 {
			out[0] = 1 + r.Intn(n)
		}
		return out
	}
	k := r.Intn(2*n + 2)
	out := make([]int, 0, k)
	for i := 0; i < k; i++ {
		switch r.Intn(8) {
		case 0:
			out = append(out, 0)
		case 1:
			out = append(out, n+1+r.Intn(2))
		default:
			out = append(out, 1+r.Intn(n))
		}
	}
	return out
}

func randSubset(r *rand.Rand, n int, p float64) []int {
	out := []int{}
	for i := 1; i <= n; i++ {
		if r.Float64() < p {
			out = append(out, i)
		}
	}
	return out
}

// boundaryTotals are the totals around which float64 / overflow mistakes live.
func boundaryTotals() []uint64 {
	var out []uint64
	for _, c := range []uint64{1 << 24, 1 << 31, 1 << 32, 1 << 52, 1 << 53, 1 << 54, 1 << 62, 1 << 63, 3 << 62} {
		for d := uint64(0); d <= 12; d++ {
			out = append(out, c-d, c+d)
		}
	}
	for d := uint64(0); d <= 40; d++ {
		out = append(out, ^uint64(0)-d)
	}
	for _, m := range []uint64{1 << 20, 1 << 40, 1<<53 + 7, 1 << 60, 6148914691236517205 /* (2^64-1)/3 */} {
		for d := uint64(0); d <= 3; d++ {
			if 3*m-1 <= ^uint64(0)-d { // no wrap-around: the property is about totals that fit in 64 bits
				out = append(out, 3*m-1+d)
			}
		}
	}
	return out
}

// splitTotal splits total into n weights (some possibly zero) whose sum is exactly total.
func splitTotal(r *rand.Rand, total uint64, n int) []uint64 {
	ws := make([]uint64, n)
	rest := total
	for i := 0; i < n-1; i++ {
		var w uint64
		switch r.Intn(4) {
		case 0:
			w = 0
		case 1:
			w = rest / uint64(n-i)
		default:
			if rest > 0 {
				w = r.Uint64()
				if rest != ^uint64(0) {
					w %= rest + 1
				}
				if r.Intn(2) == 0 {
					w /= uint64(n)
				}
			}
		}
		ws[i] = w
		rest -= w
	}
	ws[n-1] = rest
	r.Shuffle(n, func(i, j int) { ws[i], ws[j] = ws[j], ws[i] })
	return ws
}

func cmdQuorum(args []string) int {
	fs := flag.NewFlagSet("quorum", flag.ExitOnError)
	outPath := fs.String("out", "quorum.ndjson", "")
	seed := fs.Int64("seed", 1, "")
	nSmall := fs.Int("small", 1500, "random small cases")
	nBig := fs.Int("big", 1500, "random 64-bit cases")
	replay := fs.String("replay", "", "ndjson of earlier lines: recompute the outputs for the same inputs")
	fs.Parse(args)
	r := newRand(*seed)
	out := newNdjson(*outPath)
	defer out.close()
	if *replay != "" {
		for _, e := range readNdjson(*replay) {
			ws := []uint64{}
			for _, l := range e["w"].([]interface{}) {
				ws = append(ws, unlimbs(l))
			}
			idShape = 0
			if sh, ok := e["shape"].(float64); ok {
				idShape = int(sh)
			}
			if e["op"] == "call" {
				quorumCall(out, ws, intList(e["ids"]))
			} else {
				quorumPair(out, ws, intList(e["a"]), intList(e["b"]))
			}
		}
		fmt.Printf("lines=%d\n", out.n)
		return 0
	}

	// (i) small vectors: the same region MC_Quorum enumerates, sampled, plus all-subsets pairs
	for i := 0; i < *nSmall; i++ {
		n := 1 + r.Intn(6)
		ws := make([]uint64, n)
		for j := range ws {
			ws[j] = uint64(r.Intn(7))
		}
		idShape = i % 5
		quorumCall(out, ws, randIds(r, n))
		quorumPair(out, ws, randSubset(r, n, 0.6), randSubset(r, n, 0.6))
	}
	// (ii) boundary totals, split in several ways, n = 4..7; subsets near the thresholds
	for _, total := range boundaryTotals() {
		for rep := 0; rep < 3; rep++ {
			n := 4 + r.Intn(4)
			var ws []uint64
			if rep == 0 && total >= uint64(n) {
				ws = make([]uint64, n) // all the weight on one member plus unit crumbs
				ws[0] = total - uint64(n-1)
				for j := 1; j < n; j++ {
					ws[j] = 1
				}
			} else {
				ws = splitTotal(r, total, n)
			}
			idShape = r.Intn(5)
			quorumCall(out, ws, randIds(r, n))
			quorumCall(out, ws, randSubset(r, n, 0.7))
			a := randSubset(r, n, 0.7)
			b := randSubset(r, n, 0.7)
			quorumPair(out, ws, a, b)
			quorumPair(out, ws, a, append(append([]int{}, a...), complement(n, a)...)[:len(a)+r.Intn(n-len(a)+1)])
		}
	}
	// (iii) random 64-bit totals
	for i := 0; i < *nBig; i++ {
		n := 4 + r.Intn(9)
		total := r.Uint64()
		if r.Intn(3) == 0 {
			total >>= uint(r.Intn(40))
		}
		ws := splitTotal(r, total, n)
		idShape = r.Intn(5)
		quorumCall(out, ws, randIds(r, n))
		a := randSubset(r, n, 0.75)
		quorumPair(out, ws, a, randSubset(r, n, 0.75))
	}
	fmt.Printf("lines=%d\n", out.n)
	return 0
}
