CONSTANTS Dev = {"StandalonePP"} Ablate = {}
INIT Init
NEXT Next
CHECK_DEADLOCK FALSE
