---------------------------- MODULE Trace_Runtime ----------------------------
(* Executions of the REAL two-goroutine runtime (MainLoop.Run, real state/contexts/term) of one  *)
(* node under the randomised runtime driver of the harness (gating SPI calls, elections, syncs,     *)
(* garbage, cancellation at a random point).  Events carry one global sequence number taken inside  *)
(* the critical section in which they are logged; the trace is sorted by it.  This module is a      *)
(* monitor: it keeps the history that the step requirements of C12-C16 (as stated for Runtime.tla)  *)
(* need and evaluates them on every event.                                                          *)
EXTENDS Integers, Sequences, FiniteSets, TLC, Json, IOUtils
Trace == ndJsonDeserialize(IOEnv.VERIF_TRACE)

VARIABLES l, s
\* s: monitor state of the current run
Chk(cond, tag) == cond \/ PrintT(<<"VERIF_BAD", tag, l>>)
Older(a, b) == a[1] < b[1] \/ (a[1] = b[1] /\ a[2] < b[2])
MaxHV(a, b) == IF Older(a, b) THEN b ELSE a
None == <<0, 0>>

Fresh == [lastCommit |-> -1, commitFailed |-> FALSE, lastRound |-> -1, obs |-> <<>>,
          wmBegin |-> None, wmDone |-> None, cancelled |-> FALSE, down |-> FALSE,
          deadProps |-> {}, rejected |-> {}, consumerPanics |-> 0, okSync |-> -1, mainStarts |-> 0, workerStarts |-> 0, garbage |-> FALSE,
          realtimer |-> FALSE, timeoutUs |-> 0, tcom |-> <<>>]

Init == l = 1 /\ s = Fresh

\* position whose older contexts a main-loop event cancels
Target(e) == IF e.ev \in {"main.election.begin", "main.election.done", "main.election.ignored"} THEN <<e.h, e.v + 1>>
             ELSE <<e.h + 1, 0>>

Step(e) ==
  CASE e.ev = "init" -> [Fresh EXCEPT !.garbage = e.garbage, !.realtimer = e.realtimer, !.timeoutUs = e.timeout_us]
    \* the first time the committee request of height h returned: the term of h is created, and its timer armed, after that moment
    [] e.ev = "spi.leave" /\ e.kind = "committee" -> IF e.h \in DOMAIN s.tcom THEN s ELSE [s EXCEPT !.tcom = (e.h :> e.t) @@ @]
    [] e.ev = "sample" ->
         LET prev == IF e.obs \in DOMAIN s.obs THEN s.obs[e.obs] ELSE None IN
         [s EXCEPT !.obs = (e.obs :> <<e.h, e.v>>) @@ s.obs]
    [] e.ev = "cb.commit" -> [s EXCEPT !.lastCommit = e.h, !.commitFailed = FALSE]
    [] e.ev = "cb.commit.failed" -> [s EXCEPT !.commitFailed = TRUE]
    [] e.ev = "cb.round" -> [s EXCEPT !.lastRound = e.h]
    [] e.ev \in {"main.election.begin", "main.sync.begin"} -> [s EXCEPT !.wmBegin = MaxHV(@, Target(e))]
    [] e.ev \in {"main.election.done", "main.election.ignored", "main.sync.done", "main.sync.ignored"} -> [s EXCEPT !.wmDone = MaxHV(@, Target(e))]
    [] e.ev = "api.cancel" -> [s EXCEPT !.cancelled = TRUE]
    [] e.ev = "shutdown.returned" -> [s EXCEPT !.down = TRUE]
    [] e.ev = "validate.rejected" -> [s EXCEPT !.rejected = @ \cup {e.blk}]
    [] e.ev = "proposal.made" -> IF e.dead THEN [s EXCEPT !.deadProps = @ \cup {e.blk}] ELSE s
    [] e.ev = "api.update.return" -> IF e.ok /\ e.b > s.okSync THEN [s EXCEPT !.okSync = e.b] ELSE s
    [] e.ev = "main.run.start" -> [s EXCEPT !.mainStarts = @ + 1]
    [] e.ev = "worker.run.start" -> [s EXCEPT !.workerStarts = @ + 1]
    [] e.ev = "consumer.panic" -> [s EXCEPT !.consumerPanics = @ + 1]
    [] OTHER -> s

LibraryEvent(e) == e.ev \in {"cb.commit", "cb.round", "send", "spi.enter", "main.election.begin", "main.sync.begin",
                             "main.run.start", "worker.run.start", "proposal.made"}

Judge(e) ==
  \* ---------------- a run that did not end: the driver made an API call that never returned, or the two loops wait for each other.
  \* (C12: wedged for good; C14: a sync that never takes effect; C15: a consumer call nobody releases; C16: no shutdown)
  /\ Chk(e.ev # "hang", "c12_run_did_not_end") /\ Chk(e.ev # "hang", "c14_run_did_not_end")
  /\ Chk(e.ev # "hang", "c15_run_did_not_end") /\ Chk(e.ev # "hang", "c16_run_did_not_end")
  \* ---------------- C19 on the running node with the library's own timer (configured timeout of view 0: 2.5 ms): the trigger of
  \* (h, 0) is not handled before that timeout has passed since the timer can have been armed.  Times are microseconds of the
  \* monotonic clock; the anchor (the committee request of h returned) is logged BEFORE the term arms its timer, so the
  \* difference under-estimates nothing.  (Runs in which the worker was restarted are left out: a second term of one height.)
  /\ Chk((e.ev = "main.election.begin" /\ e.v = 0 /\ s.realtimer /\ s.workerStarts <= 1 /\ e.h \in DOMAIN s.tcom) =>
           e.t - s.tcom[e.h] >= s.timeoutUs, "c19_trigger_before_the_configured_timeout")
  \* ---------------- C13
  /\ Chk(e.ev = "cb.commit" => e.h > s.lastCommit, "c13_commit_heights_not_increasing")
  /\ Chk(e.ev = "cb.round" => e.h > s.lastRound, "c13_round_heights_not_increasing")
  /\ Chk(e.ev = "cb.round" => e.h > s.lastCommit, "c13_round_not_above_committed_height")
  /\ Chk(e.ev = "sample" =>
           LET prev == IF e.obs \in DOMAIN s.obs THEN s.obs[e.obs] ELSE None  cur == <<e.h, e.v>> IN
           ~Older(cur, prev), "c13_observed_state_went_backwards")
  \* ---------------- C14
  /\ Chk((e.ev = "cb.round" /\ e.first /\ e.h > 1) => (s.lastCommit = e.h - 1 /\ ~s.commitFailed), "c14_first_leader_in_round_entered_by_sync")
  /\ Chk((e.ev = "send" /\ e.kind = "PP" /\ e.v = 0 /\ e.h > 1) => (s.lastCommit = e.h - 1 /\ ~s.commitFailed), "c14_proposed_in_view_0_after_sync")
  /\ Chk((e.ev = "api.update.return" /\ ~s.cancelled) => ~e.blocked, "c14_update_state_blocked")
  /\ Chk(e.ev = "quiesce" => e.h > s.okSync, "c14_sync_did_not_take_effect")
  \* ---------------- C15
  /\ Chk((e.ev = "spi.enter" /\ ~e.dead) => ~Older(<<e.h, e.v>>, s.wmDone), "c15_context_handed_out_for_superseded_position")
  /\ Chk(e.ev = "spi.done_seen" => (s.cancelled \/ Older(<<e.h, e.v>>, s.wmBegin)), "c15_current_or_future_context_cancelled")
  /\ Chk(e.ev = "quiesce" => \A i \in DOMAIN e.blocked : ~Older(<<e.blocked[i].h, e.blocked[i].v>>, s.wmDone), "c15_blocked_call_not_released")
  /\ Chk((e.ev = "send" /\ e.kind \in {"PP", "NV"}) => e.blk \notin s.deadProps, "c15_proposal_broadcast_after_cancelled_call")
  \* C15: an election trigger (the node is told to leave the view) is taken by the main loop - otherwise the contexts of that view are never cancelled
  /\ Chk(e.ev = "driver.election.blocked" => s.cancelled, "c15_election_trigger_not_taken_by_the_main_loop")
  \* ---------------- C04 (the consumer's verdict is a function of the block: rejected once, rejected always; the peers are played
  \* by the driver and vote for anything, so only this node's validation stands between a rejected proposal and its commit)
  /\ Chk(e.ev = "cb.commit" => e.blk \notin s.rejected, "c04_committed_a_block_its_consumer_rejected")
  /\ Chk((e.ev = "send" /\ e.kind \in {"P", "C"}) => e.x \notin s.rejected, "drift_voted_for_a_proposal_its_consumer_rejected")
  \* ---------------- C16
  /\ Chk(e.ev = "shutdown.returned" => (e.ok /\ e.ms <= 2500), "c16_shutdown_did_not_complete_in_time")
  /\ Chk((s.down /\ LibraryEvent(e)) => FALSE, "c16_activity_after_shutdown")
  /\ Chk(e.ev = "end" => e.leaks <= 0, "c16_goroutine_leak")
  /\ Chk(e.ev = "end" => e.stopped, "c16_election_timer_not_stopped")
  /\ Chk(e.ev = "api.after_cancel" => (e.update_err /\ e.ms <= 1500), "c16_api_call_with_cancelled_context_blocked")
  \* ---------------- C12
  /\ Chk(e.ev = "main.run.start" => s.mainStarts = 0, "c12_main_loop_restarted_after_panic")
  \* (a panic of the consumer's own callback is not the library's: each one accounts for one restart)
  /\ Chk(e.ev = "worker.run.start" => s.workerStarts <= s.consumerPanics, "c12_worker_loop_restarted_after_panic")
  /\ Chk((e.ev = "probe" /\ s.garbage) => e.progressed, "c12_node_no_longer_commits")
  /\ Chk((e.ev = "probe" /\ ~s.garbage) => e.progressed, "drift_probe_no_progress")
  /\ Chk(e.ev = "api.msg.blocked" => s.cancelled, "c12_handle_consensus_message_blocked")

Next == /\ l <= Len(Trace) /\ l' = l + 1
        /\ LET e == Trace[l] IN s' = Step(e) /\ Judge(e)    \* assignments first: TLC then evaluates Judge as a predicate
=============================================================================
