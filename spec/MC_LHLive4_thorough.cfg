CONSTANTS MaxView = 3 PreMaxView = 1 Canon = TRUE ByzBudget = 1 Blocks <- cBlocks Hdr <- cHdr Dev = {} Ablate = {}
INIT LInit
NEXT LNextI
INVARIANTS NoStall Agreement
VIEW LView
CHECK_DEADLOCK TRUE
