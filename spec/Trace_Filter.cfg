CONSTANTS Hmax = 4 Fixed = TRUE
INIT Init
NEXT Next
CHECK_DEADLOCK FALSE
