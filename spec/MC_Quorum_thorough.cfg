CONSTANTS MaxN = 5 MaxW = 6
INIT Init
NEXT Next
INVARIANT LawsHold
CHECK_DEADLOCK FALSE
