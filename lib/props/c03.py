"""C03: see props/cluster.py (one recorded trace family, this property's own formulas in Trace_Cluster.tla); plus the content of
the random-seed shares as a function table (Trace_SeedFmt.tla): the bytes every node signs and verifies."""
import json
from props import cluster, tables

PID = "C03"


def _classify(line, tags):
    return {"tags": tags, "part": "seedfmt"}, "RandomSeedToBytes(%s) -> %r: %s" % (line.get("seed"), line.get("out"), ",".join(tags))


def seed_content(rep, tier, seed, replay_in=None):
    tables.run_table(rep, PID, "seedfmt", ["-seed", seed, "-rand", 300 if tier == "quick" else 5000], "Trace_SeedFmt", "Trace_SeedFmt.cfg",
                     _classify, replay_in=replay_in, sample_keys=["seed", "out", "stable", "conc_stable"], distinct_key=lambda e: e.get("seed"))


def run(tier, seed):
    return cluster.simple_check(PID, tier, seed, extra=seed_content)


def replay(path, seed):
    payload = json.load(open(path))
    if payload.get("kind") == "seedfmt-line":
        import vlib
        rep = vlib.Report(PID, "quick", seed)
        rep.replay_of = path
        seed_content(rep, "quick", payload.get("seed", seed))
        return rep.finish()
    return cluster.simple_replay(PID, path, seed)
