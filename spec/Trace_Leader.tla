---------------------------- MODULE Trace_Leader ----------------------------
(* P4 for C18: lines record the real leader function (index of the returned member, or a   *)
(* panic) for a committee size n and a 64-bit view (BigNat limbs), the leader a term computes  *)
(* (tidx) and the members its sender predicate recognises as leader (pred); "run" lines record n *)
(* consecutive views.                                                                      *)
EXTENDS BigNat, Json, IOUtils, FiniteSets
Trace == ndJsonDeserialize(IOEnv.VERIF_TRACE)
VARIABLE l
Init == l = 1
Next == l < Len(Trace) /\ l' = l + 1
Chk(cond, tag) == cond \/ PrintT(<<"VERIF_BAD", tag, l>>)
LineOK == LET e == Trace[l] IN
  CASE e.op = "leader" -> /\ Chk(~e.panic, "leader_fails")
                          /\ Chk(e.panic \/ e.idx = ModSmall(e.v, e.n), "leader_index")
                          /\ Chk(e.panic \/ e.tidx = ModSmall(e.v, e.n), "term_leader_index")
                          /\ Chk(e.panic \/ e.pred = <<ModSmall(e.v, e.n)>>, "leader_predicate_disagrees")
    [] e.op = "run" -> /\ Chk(~e.panic, "leader_fails")
                       /\ Chk(e.panic \/ (Len(e.idxs) = e.n /\ Range(e.idxs) = 0..(e.n - 1)), "round_robin")
                       /\ Chk(e.panic \/ e.idxs[1] = ModSmall(e.start, e.n), "leader_index")
    [] e.op = "agree" -> Chk(e.same, "nodes_disagree")
    [] OTHER -> Chk(FALSE, "unknown_op")
=============================================================================
