-------------------------- MODULE Trace_BlockProof --------------------------
(* P4 for C02: each line is one call of the real ValidateBlockConsensus (and of                *)
(* GetMemberIdsFromBlockProof) on concrete bytes; the line carries the harness's own parse of   *)
(* those bytes with ground-truth signature checks.  Accepted => valid; never a panic.           *)
EXTENDS BlockProof, Json, IOUtils
Trace == ndJsonDeserialize(IOEnv.VERIF_TRACE)
VARIABLES l
HdrOf(e) == [com |-> e.com, w |-> e.w, byz |-> <<>>, nodes |-> <<>>]
Init == l = 1 /\ hdr = HdrOf(Trace[1])
Chk(cond, tag) == cond \/ PrintT(<<"VERIF_BAD", tag, l>>)
Next == /\ l <= Len(Trace)
        /\ l' = l + 1
        /\ hdr' = IF l + 1 <= Len(Trace) THEN HdrOf(Trace[l + 1]) ELSE hdr
        /\ LET e == Trace[l]
               valid == ValidBlockProof(e.proof, e.blk, e.mode) IN
           /\ Chk(e.result # "panic" /\ e.ids # "panic", "c02_panic")
           /\ Chk(e.result = "ok" => valid, "c02_accepted_invalid_proof")
           \* the public entry point of a running node answers what the worker's function answers
           /\ Chk(e.result_main \in {"", e.result}, "c02_main_loop_entry_point_answers_differently")
           /\ Chk(e.result_main = "ok" => valid, "c02_accepted_invalid_proof")
           \* the answer is a function of the arguments: a node that has just validated genuine proofs of this height answers the same
           /\ Chk(e.result_warm = e.result, "c02_answer_depends_on_proofs_validated_earlier")
           /\ Chk(e.result_warm = "ok" => valid, "c02_accepted_invalid_proof")
           \* "that height's committee": the membership was asked with the reference time of the PREVIOUS block
           /\ Chk(e.wrong_epoch = 0, "c02_committee_of_another_reference_time")
           \* ... and for the height of the block being validated
           /\ Chk(e.wrong_height = 0, "c02_committee_of_another_height")
           /\ Chk((valid /\ e.canon) => e.result = "ok", "drift_rejected_valid_proof")
=============================================================================
