-------------------------- MODULE Trace_Extractor --------------------------
(* P4 for C09: each line is one call of the real GetLatestBlockFromViewChangeMessages on a list of   *)
(* VIEW_CHANGE votes (pv: view of the vote's prepared proof, -1 none; x: attached block, "-" none). *)
(* LHNode's onElectedByViewChange re-proposes "the block of the highest proof among the stored     *)
(* votes": the answer must be the block of a vote whose proof view is maximal among the votes that *)
(* carry a block, whatever the order of the list; no block when no vote carries one.               *)
EXTENDS Integers, Sequences, Json, IOUtils, FiniteSets, TLC
Trace == ndJsonDeserialize(IOEnv.VERIF_TRACE)
VARIABLE l
Init == l = 1
Next == l < Len(Trace) /\ l' = l + 1
Chk(cond, tag) == cond \/ PrintT(<<"VERIF_BAD", tag, l>>)
WithBlock(vs) == {i \in 1..Len(vs) : vs[i].x # "-"}
Highest(vs) == {i \in WithBlock(vs) : \A j \in WithBlock(vs) : vs[j].pv <= vs[i].pv}
LineOK == LET e == Trace[l] IN
  CASE e.op = "extract" ->
         /\ Chk(~e.panic, "c09_extractor_panics")
         /\ Chk(e.panic \/ (WithBlock(e.votes) = {} <=> e.res = "-"), "c09_extractor_block_presence")
         /\ Chk(e.panic \/ WithBlock(e.votes) = {} \/ e.res \in {e.votes[i].x : i \in Highest(e.votes)}, "c09_block_of_a_lower_prepared_view_extracted")
         /\ Chk(e.panic \/ e.hash_ok, "c09_extracted_hash_is_not_the_hash_of_the_extracted_block")
    [] OTHER -> Chk(FALSE, "unknown_op")
=============================================================================
