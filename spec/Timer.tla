-------------------------------- MODULE Timer --------------------------------
(* The timer-based election trigger (services/electiontrigger): RegisterOnElection arms a     *)
(* timer for (height, view); when it expires a goroutine tries to hand ONE trigger carrying     *)
(* that pair to an unbuffered channel (read by the main loop), unless the arming was stopped    *)
(* or replaced: Stop closes the arming's "cancelled" channel if the timer had already fired.   *)
(* Each arming is a generation g with its own state:                                            *)
(*   "armed" (timer running) -> "fired" (callback running, past the first cancelled-check)      *)
(*   -> "sent" | "abandoned";  "stopped" = timer stopped before firing.                         *)
EXTENDS Integers, Sequences, FiniteSets, TLC
CONSTANTS Pairs,      \* the (height, view) pairs the environment may register
          MaxGen      \* number of registrations explored
VARIABLES cur,        \* current registration: [pair, gen] or None (handler = nil)
          gens,       \* gen -> [pair, st, cancelled]
          recvd       \* sequence of [pair, gen] received on the channel
vars == <<cur, gens, recvd>>
None == [pair |-> <<0, 0>>, gen |-> 0]
Init == cur = None /\ gens = <<>> /\ recvd = <<>>
NG == Len(gens)

\* Stop(): handler := nil; stop the timer; if it had already fired, close the cancelled channel
StopCur(g) == IF g = 0 THEN gens
              ELSE [gens EXCEPT ![g] = IF @.st = "armed" THEN [@ EXCEPT !.st = "stopped"]
                                       ELSE IF @.st = "fired" THEN [@ EXCEPT !.cancelled = TRUE] ELSE @]
Register(p) == /\ NG < MaxGen
               /\ ~(cur # None /\ cur.pair = p)                 \* same pair while armed: ignored
               /\ gens' = Append(StopCur(cur.gen), [pair |-> p, st |-> "armed", cancelled |-> FALSE])
               /\ cur' = [pair |-> p, gen |-> NG + 1]
               /\ UNCHANGED recvd
Stop == /\ cur # None /\ gens' = StopCur(cur.gen) /\ cur' = None /\ UNCHANGED recvd
\* the timer expires: the callback starts and passes its first check (the arming is not cancelled at that moment)
Expire(g) == /\ gens[g].st = "armed"
             /\ gens' = [gens EXCEPT ![g].st = "fired"] /\ UNCHANGED <<cur, recvd>>
\* second select: either the reader takes the trigger, or the arming was cancelled meanwhile (if both are
\* possible Go picks either: a trigger of a superseded arming can still be delivered)
Deliver(g) == /\ gens[g].st = "fired"
              /\ gens' = [gens EXCEPT ![g].st = "sent"]
              /\ recvd' = Append(recvd, [pair |-> gens[g].pair, gen |-> g]) /\ UNCHANGED cur
Abandon(g) == /\ gens[g].st = "fired" /\ gens[g].cancelled
              /\ gens' = [gens EXCEPT ![g].st = "abandoned"] /\ UNCHANGED <<cur, recvd>>
Next == (\E p \in Pairs : Register(p)) \/ Stop
        \/ \E g \in 1..NG : Expire(g) \/ Deliver(g) \/ Abandon(g)
Spec == Init /\ [][Next]_vars /\ \A g \in 1..MaxGen : WF_vars(g <= NG /\ (Expire(g) \/ Deliver(g)))

\* C19 (trigger machine)
AtMostOnePerArming == \A i, j \in DOMAIN recvd : recvd[i].gen = recvd[j].gen => i = j
CarriesItsPair == \A i \in DOMAIN recvd : recvd[i].pair = gens[recvd[i].gen].pair
\* a trigger is only ever sent by an arming whose timer expired while it was the current one
NotFromStopped == \A g \in 1..NG : gens[g].st = "stopped" => ~\E i \in DOMAIN recvd : recvd[i].gen = g
\* an armed, un-superseded timer eventually delivers (a reader is assumed: Deliver is fair)
EventuallyDelivered == \A g \in 1..MaxGen :
   [](g <= NG /\ cur.gen = g => <>(cur.gen # g \/ \E i \in DOMAIN recvd : recvd[i].gen = g))
=============================================================================
