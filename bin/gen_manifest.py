#!/usr/bin/env python3
"""Regenerates /verif/MANIFEST.json from the table below (one place to keep it valid)."""
import json, os, subprocess

ROOT = os.path.dirname(os.path.dirname(os.path.abspath(__file__)))
ALL = ["C%02d" % i for i in range(1, 21)]

# pid -> (category, technique, text, note, design_ref)
CHECKS = {
    "C06": ("model_checking",
            "TLC: Quorum.tla laws on every small weight vector + TLC validation of recorded calls of the real quorum functions (BigNat limbs for 64-bit totals)",
            "Design level: TLC checks the five laws (intersection > f, quorum has honest, attainable, monotone, no free weight) on "
            "every weight vector of up to 5 members with weights 0..6 and all subset pairs. Code level: every call of the real "
            "CalcQuorumWeight / CalcByzMaxWeight / IsQuorum / HasHonest made by the harness (small, boundary totals around 2^53, 2^63, "
            "2^64-1, multiples of 3, random 64-bit) is written as a trace line and TLC recomputes f, Q, the subset weight and the laws "
            "from the specification's definitions. Unit tests cannot reach this because the interesting totals are above 2^53.",
            "Trusted: BigNat.tla limb arithmetic, the harness's encoding of inputs/outputs; totals are assumed to fit 64 bits as the property says.",
            "DESIGN.md 5 C06"),
    "C15": ("model_checking",
            "TLC: ViewContexts.tla complete state graph + TLC validation of tree traces (all call sequences up to a depth, random long ones) recorded from the real state.ViewContexts",
            "Registry laws (never hand out a context for a superseded position, cancel exactly the older ones, release everything on "
            "shutdown, no resurrection) are invariants / action properties of ViewContexts.tla checked on its complete state graph for "
            "2x3 (quick) and 3x4 (thorough) positions, so every call order over those ranges is covered at the design level. The real "
            "registry is then driven through every call sequence up to depth 4 (quick) / 5 (thorough) plus random sequences; each call's "
            "result and the Err() of every context handed out so far are judged by TLC against the same step functions.",
            "Trusted: the harness's observation of contexts (Err() of the most recently issued context per position). The runtime part (SPI contexts on election/sync/shutdown) is added by the runtime checks when built.",
            "DESIGN.md 5 C15"),
    "C18": ("model_checking",
            "TLC: Leader.tla round-robin law for sizes 4..64 + TLC validation (BigNat modulo) of the real leader function tabulated over 64-bit views",
            "The leader function is a pure function of (view, committee); TLC checks the round-robin law of the specification for every "
            "size 4..64 and validates every recorded call of the real function (dense 0..4n, powers of two +-1, neighbourhoods of 2^31, "
            "2^32, 2^63, 2^64-1, random 64-bit views; runs of n consecutive views including across 2^63 and the 2^64 wrap) against v mod n.",
            "Trusted: VerifLeaderOf accessor (calls the unexported function the term uses), BigNat.tla. All correct nodes compute the same leader because the function is deterministic in (view, ordered committee); behaviour-level acceptance by view is exercised by the cluster checks.",
            "DESIGN.md 5 C18"),
    "C19": ("model_checking",
            "TLC validation of recorded CalcTimeout values (positivity, base*2^v when it fits int64, monotone in the view) via Timeout.tla/BigNat; trigger state machine part pending",
            "Formula part: every recorded CalcTimeout(base, v) of the real trigger (views 0..200, boundary classes up to 2^64-1, bases 1ns..2^63-1) "
            "is checked by TLC to be positive, equal to base*2^v whenever that fits a Duration, and not smaller than the value for a lower view.",
            "Trusted: BigNat.tla; the saturation value itself is not pinned (any positive monotone value is accepted once base*2^v exceeds int64).",
            "DESIGN.md 5 C19"),
}

PENDING_REASON = "check not built yet in this round; planned per DESIGN.md section 5 (no claim is made until a sound check exists)"


def main():
    hooks_commits = []
    try:
        out = subprocess.run(["git", "-C", "/repo", "log", "--format=%h %s"], stdout=subprocess.PIPE, text=True).stdout
        hooks_commits = [l.split()[0] for l in out.splitlines() if l.split(" ", 1)[1].startswith("verif:")]
    except Exception:
        pass
    m = {
        "version": 1,
        "setup_cmd": "cd /verif && bin/setup",
        "hooks": {
            "guard": "verif",
            "enable": "go build -tags verif (the harness module /verif/harness replaces github.com/orbs-network/lean-helix-go with /repo)",
            "baseline_off_cmd": "cd /repo && GOFLAGS=-mod=mod GOPROXY=off GOSUMDB=off go test -json -vet=off -count=1 -timeout 25m ./...",
            "source_commits": hooks_commits,
            "add_only": True,
        },
        "engines": [
            {"name": "tlc", "path": "/opt/veriftools/tla/tla2tools.jar", "serves_properties": sorted(CHECKS),
             "kind_free_text": "TLC model checker: state graphs of /verif/spec/*.tla and validation of traces recorded from the real code"},
            {"name": "lhverif", "path": "/verif/harness", "serves_properties": sorted(CHECKS),
             "kind_free_text": "Go harness driving the real packages of /repo; writes ndjson traces, replays TLC behaviours"},
        ],
        "checks": [],
        "not_applicable": [],
        "notes": "All verdicts come from TLA+ formulas evaluated by TLC on state graphs of the specifications or on traces recorded from the real code; see DESIGN.md.",
    }
    for pid in ALL:
        if pid in CHECKS:
            cat, tech, text, note, ref = CHECKS[pid]
            m["checks"].append({
                "property_id": pid,
                "quick_cmd": "bin/check %s --tier quick" % pid,
                "thorough_cmd": "bin/check %s --tier thorough" % pid,
                "evidence_file": "/verif/evidence/%s.json" % pid,
                "replay_cmd_template": "bin/check %s --replay {path}" % pid,
                "engine": "tlc",
                "level_claimed": {"category": cat, "text": text, "design_ref": ref},
                "level_note": note,
                "technique": tech,
            })
        else:
            m["not_applicable"].append({"property_id": pid, "reason": PENDING_REASON})
    with open(os.path.join(ROOT, "MANIFEST.json"), "w") as f:
        json.dump(m, f, indent=1)
    print("MANIFEST.json: %d checks, %d not_applicable" % (len(m["checks"]), len(m["not_applicable"])))


if __name__ == "__main__":
    main()
