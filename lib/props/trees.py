"""Tree-trace helper (C15, C17): the harness walks all call sequences up to a depth on the real object
(plus random long sequences); Trace_*.tla keeps a stack of specification states and judges every call.
Bad tags starting with 'drift_' are conformance drift (reported, exit 0); everything else is a
violation of the property named by the tag prefix."""
import json, os, shutil
import vlib
from props import tables


def path_to_line(lines, l):
    """Reconstruct the call path (from the last reset / tree root) that leads to line l (1-based)."""
    path = []
    for e in lines[:l]:
        if e["op"] == "reset":
            path = []
        elif e["op"] == "pop":
            path.pop()
        else:
            path.append(e)
    return path


def run_tree(rep, pid, cmd, gen_args, module, cfg, describe, replay_in=None, timeout=1800, env_extra=None, only_prefix=None):
    wd = vlib.scratch_dir(pid.lower())
    try:
        trace = os.path.join(wd, cmd + ".ndjson")
        if replay_in is None:
            out = vlib.run_harness([cmd, "-out", trace] + gen_args, cwd=wd)
        else:
            out = vlib.run_harness([cmd, "-out", trace, "-replay", replay_in], cwd=wd)
        lines, bad = tables.validate(rep, trace, module, cfg, wd, timeout=timeout, env_extra=env_extra)
        calls = [e for e in lines if e["op"] not in ("pop", "reset")]
        rep.evaluations += 0
        for e in calls[:1] + calls[len(calls) // 2:len(calls) // 2 + 2]:
            rep.sample(e)
        for e in calls:
            rep.distinct.add(json.dumps(e, sort_keys=True))
        seen = set()
        for l in sorted(bad):
            tags = sorted(set(bad[l]))
            path = path_to_line(lines, l)
            drift = [t for t in tags if t.startswith("drift_")]
            viol = [t for t in tags if not t.startswith("drift_") and (only_prefix is None or t.startswith(only_prefix))]
            if not drift and not viol:
                continue
            if drift and not viol:
                rep.drift.append("%s after %d calls: %s" % (",".join(drift), len(path), describe(path)))
                continue
            sig = {"tags": viol, "last_op": path[-1]["op"] if path else None}
            k = vlib.known_match(pid, sig)
            if k:
                if k["id"] not in seen:
                    seen.add(k["id"])
                    rep.known.append("%s: %s" % (k["id"], k["what"]))
                continue
            key = json.dumps(sig, sort_keys=True)
            if key in seen:
                continue
            seen.add(key)
            p = rep.replay_of or vlib.save_replay(pid, "%s_line%d_seed%d" % (cmd, l, rep.seed),
                                                  {"property": pid, "kind": cmd + "-path", "path": path, "failed": sig})
            rep.violation(p, "%s: %s after the call sequence %s" % (pid, ",".join(viol), describe(path)))
        return lines, bad, out
    finally:
        shutil.rmtree(wd, ignore_errors=True)


def replay_path(payload, wd):
    src = os.path.join(wd, "in.ndjson")
    with open(src, "w") as f:
        for e in payload["path"]:
            f.write(json.dumps(e) + "\n")
    return src
