CONSTANTS N = 4 MaxView = 2 NBlocks = 2 Byz <- ByzWeighted Dev <- NoDev W <- W4w
INIT Init
NEXT Next
INVARIANTS Agreement IndInv
CHECK_DEADLOCK FALSE
