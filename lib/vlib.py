"""Shared machinery of the lean-helix-go verification driver (/verif/bin/check).

Everything that decides a property is a TLA+ formula evaluated by TLC, either on the state graph
of a specification under /verif/spec (P1) or on traces recorded from the real code by the Go
harness under /verif/harness (P2/P3/P4).  This module only orchestrates: build, run, parse, report.

Exit codes of a check: 0 held on everything explored, 1 violation (VIOLATION line + replay file),
2 inconclusive (tool failure, timeout, vacuous run) - never reported as a violation.
"""
import json, os, re, shutil, subprocess, sys, tempfile, time

ROOT = os.path.dirname(os.path.dirname(os.path.abspath(__file__)))
REPO = os.environ.get("VERIF_REPO", "/repo")
SPEC = os.path.join(ROOT, "spec")
HARNESS = os.path.join(ROOT, "harness")
BUILD = os.path.join(ROOT, ".build")
SCRATCH = os.path.join(ROOT, ".scratch")
EVIDENCE = os.path.join(ROOT, "evidence")
REPLAYS = os.path.join(ROOT, "replays")
# VERIF_REPO (seed experiments only, never set by a registered command): check another working tree of the
# repository; the harness is built from a scratch copy pointing at it and evidence/replays go to a side directory
ALT = REPO != "/repo"
if ALT:
    import hashlib
    _tag = hashlib.sha1(REPO.encode()).hexdigest()[:10]
    EVIDENCE = os.path.join(ROOT, ".scratch", "alt_" + _tag, "evidence")
    REPLAYS = os.path.join(ROOT, ".scratch", "alt_" + _tag, "replays")
KNOWN = os.path.join(ROOT, "known_findings.json")
TLA_CP = "/opt/veriftools/tla/tla2tools.jar:/opt/veriftools/tla/CommunityModules-deps.jar"
NCPU = os.cpu_count() or 4


class Inconclusive(Exception):
    pass


def goenv():
    e = dict(os.environ)
    e.update(GOFLAGS="-mod=mod", GOPROXY="off", GOSUMDB="off", GOTOOLCHAIN="local", CGO_ENABLED="0")
    return e


def log(*a):
    print(*a, file=sys.stderr, flush=True)


_built = {}


def build_harness(tags="verif"):
    """Rebuild the Go harness against /repo's current working tree (hooks enabled)."""
    if tags in _built:
        return _built[tags]
    os.makedirs(BUILD, exist_ok=True)
    out = os.path.join(BUILD, "lhverif")
    src = HARNESS
    if ALT:
        src = os.path.join(ROOT, ".scratch", "alt_" + _tag, "harness")
        shutil.rmtree(src, ignore_errors=True)
        shutil.copytree(HARNESS, src)
        gm = open(os.path.join(src, "go.mod")).read().replace("=> /repo", "=> " + REPO)
        open(os.path.join(src, "go.mod"), "w").write(gm)
        out = os.path.join(BUILD, "lhverif_" + _tag)
    gosum_src = os.path.join(REPO, "go.sum")
    if os.path.exists(gosum_src):
        shutil.copyfile(gosum_src, os.path.join(src, "go.sum"))
    t0 = time.time()
    p = subprocess.run(["go", "build", "-tags", tags, "-o", out, "./cmd/lhverif"], cwd=src, env=goenv(),
                       stdout=subprocess.PIPE, stderr=subprocess.STDOUT, text=True)
    if p.returncode != 0:
        raise Inconclusive("harness build failed against %s:\n%s" % (REPO, p.stdout[-4000:]))
    log("[build] harness built in %.1fs" % (time.time() - t0))
    _built[tags] = out
    return out


def scratch_dir(prefix):
    os.makedirs(SCRATCH, exist_ok=True)
    return tempfile.mkdtemp(prefix=prefix + "_", dir=SCRATCH)


def run_harness(args, cwd, timeout=1800, env_extra=None):
    exe = build_harness()
    env = dict(os.environ)
    if env_extra:
        env.update(env_extra)
    t0 = time.time()
    # the library's own log goes to the driver's stdout; a tree that panics on every step writes gigabytes: to files, tails read
    fo, fe = os.path.join(cwd, ".harness.%s.out" % args[0]), os.path.join(cwd, ".harness.%s.err" % args[0])

    def tail(path, n):
        try:
            with open(path, "rb") as f:
                f.seek(0, 2)
                size = f.tell()
                f.seek(max(0, size - n))
                return f.read().decode("utf-8", "replace")
        except OSError:
            return ""
    try:
        with open(fo, "wb") as so, open(fe, "wb") as se:
            p = subprocess.run([exe] + [str(a) for a in args], cwd=cwd, env=env, stdout=so, stderr=se, timeout=timeout)
    except subprocess.TimeoutExpired:
        raise Inconclusive("harness %s timed out after %ss" % (args[0], timeout))
    p.stdout, p.stderr = tail(fo, 20000), tail(fe, 8000)
    for f in (fo, fe):
        try:
            os.unlink(f)
        except OSError:
            pass
    if p.returncode != 0:
        raise Inconclusive("harness %s exited %d:\n%s\n%s" % (args[0], p.returncode, p.stdout[-2000:], p.stderr[-4000:]))
    log("[harness] %s %.1fs %s" % (args[0], time.time() - t0, p.stdout.strip().replace("\n", " | ")[:300]))
    return p.stdout


class TlcResult:
    def __init__(self):
        self.generated = 0
        self.distinct = 0
        self.depth = 0
        self.violated = None      # name of violated invariant / property reported by TLC itself
        self.bad = []             # [(tag, payload...)] tuples printed by Report(...) in the specs
        self.info = []            # VERIF_INFO tuples
        self.ok = False
        self.error = None
        self.output = ""
        self.wall = 0.0
        self.coverage_zero = []


_BAD = re.compile(r'<<"VERIF_(BAD|INFO)",\s*(.*)>>\s*$')


_TUP = re.compile(r'<<\s*"VERIF_(BAD|INFO)"\s*,')


def _verif_tuples(out):
    """<<"VERIF_BAD", ...>> tuples printed by the specs; TLC's pretty printer wraps tuples longer than 80 columns over
    several lines, so the text is scanned for balanced << >> instead of line by line."""
    pos = 0
    while True:
        m = _TUP.search(out, pos)
        if not m:
            return
        depth, i = 1, m.end()
        while i < len(out) - 1 and depth > 0:
            two = out[i:i + 2]
            if two == "<<":
                depth, i = depth + 1, i + 2
            elif two == ">>":
                depth, i = depth - 1, i + 2
            elif out[i] == '"':
                j = out.find('"', i + 1)
                i = (j + 1) if j > 0 else len(out)
            else:
                i += 1
        yield m.group(1), " ".join(out[m.end():i - 2].split())
        pos = i


def _parse_tla_tuple(body):
    # body: comma separated TLA+ literals (strings / ints / booleans); good enough for our reports
    out = []
    for tok in re.findall(r'"[^"]*"|-?\d+|TRUE|FALSE|<<[^>]*>>', body):
        if tok.startswith('"'):
            out.append(tok[1:-1])
        elif tok in ("TRUE", "FALSE"):
            out.append(tok == "TRUE")
        elif tok.startswith("<<"):
            out.append(tok)
        else:
            out.append(int(tok))
    return out


def tlc(module, cfg, workdir=None, workers=None, timeout=600, env_extra=None, extra=None, depth_first=False,
        heap=None, simulate=None):
    """Run TLC on spec/<module>.tla with spec/<cfg> inside a scratch copy of the spec directory."""
    own = workdir is None
    if own:
        workdir = scratch_dir("tlc")
    for f in os.listdir(SPEC):
        if f.endswith(".tla") or f.endswith(".cfg"):
            shutil.copyfile(os.path.join(SPEC, f), os.path.join(workdir, f))
    meta = tempfile.mkdtemp(prefix="meta_", dir=workdir)
    jopts = ["-XX:+UseParallelGC", "-Xss64m"]
    if heap:
        jopts.append("-Xmx%s" % heap)
    if depth_first:
        jopts.append("-Dtlc2.tool.queue.IStateQueue=StateDeque")
    cmd = ["java"] + jopts + ["-cp", TLA_CP, "tlc2.TLC", "-workers", str(workers or "auto"), "-metadir", meta,
                              "-config", cfg, "-noGenerateSpecTE"]
    if simulate:
        cmd += ["-simulate", simulate]
    if extra:
        cmd += extra
    cmd.append(module + ".tla")
    env = dict(os.environ)
    env.pop("JAVA_TOOL_OPTIONS", None)
    if env_extra:
        env.update({k: str(v) for k, v in env_extra.items()})
    r = TlcResult()
    t0 = time.time()
    try:
        p = subprocess.run(cmd, cwd=workdir, env=env, stdout=subprocess.PIPE, stderr=subprocess.STDOUT, text=True,
                           timeout=timeout)
        out = p.stdout
        rc = p.returncode
    except subprocess.TimeoutExpired as e:
        out = (e.stdout or b"").decode("utf-8", "replace") if isinstance(e.stdout, bytes) else (e.stdout or "")
        rc = -1
        r.error = "timeout after %ss" % timeout
    r.wall = time.time() - t0
    r.output = out
    for kind, body in _verif_tuples(out):
        (r.bad if kind == "BAD" else r.info).append(_parse_tla_tuple(body))
    m = re.findall(r"(\d[\d,]*) states generated, (\d[\d,]*) distinct states found", out)
    if m:
        r.generated = int(m[-1][0].replace(",", ""))
        r.distinct = int(m[-1][1].replace(",", ""))
    m = re.search(r"depth of the complete state graph search is (\d+)", out)
    if m:
        r.depth = int(m.group(1))
    m = re.search(r"Error: (?:Invariant|Action property|Temporal properties|Property) ?(\S*) (?:is|were) violated", out)
    if m:
        r.violated = m.group(1) or "temporal"
    if "Model checking completed. No error has been found." in out or (simulate and rc in (0, -1) and "Error:" not in out):
        r.ok = True
    elif r.violated:
        r.ok = False
    elif r.error is None:
        errs = [l for l in out.splitlines() if l.startswith("Error:") or "Exception" in l]
        r.error = "TLC failed (rc=%s): %s" % (rc, " / ".join(errs[:6]) or out[-1500:])
    log("[tlc] %s/%s: %d generated, %d distinct, depth %d, %.1fs%s%s" % (
        module, cfg, r.generated, r.distinct, r.depth, r.wall,
        ", VIOLATED " + r.violated if r.violated else "", ", ERROR " + r.error if r.error else ""))
    if own and r.error is None:
        shutil.rmtree(workdir, ignore_errors=True)
    else:
        shutil.rmtree(meta, ignore_errors=True)
    return r


def apalache(module, init, inv, length, timeout=600, heap=None):
    """Apalache (symbolic, unbounded integers): `check --init --inv --length` on spec/<module>.tla in a scratch directory.
    Returns (ok, tail of the output, seconds).  Used for inductive-invariant steps; a failure is a specification matter."""
    wd = scratch_dir("apalache")
    try:
        for f in os.listdir(SPEC):
            if f.endswith(".tla"):
                shutil.copyfile(os.path.join(SPEC, f), os.path.join(wd, f))
        t0 = time.time()
        try:
            env = dict(os.environ)
            if heap:
                env["JVM_ARGS"] = "-Xmx" + heap
            p = subprocess.run(["apalache-mc", "check", "--init=" + init, "--inv=" + inv, "--length=%d" % length, "--out-dir=" + os.path.join(wd, "_out"), module + ".tla"],
                               cwd=wd, env=env, stdout=subprocess.PIPE, stderr=subprocess.STDOUT, text=True, timeout=timeout)
            out = p.stdout
        except (subprocess.TimeoutExpired, OSError) as e:
            raise Inconclusive("apalache-mc %s %s/%s: %s" % (module, init, inv, e))
        ok = "The outcome is: NoError" in out
        log("[apalache] %s init=%s inv=%s length=%d: %s, %.1fs" % (module, init, inv, length, "no error" if ok else "ERROR", time.time() - t0))
        return ok, out[-1500:], time.time() - t0
    finally:
        shutil.rmtree(wd, ignore_errors=True)


def tlc_must_pass(module, cfg, **kw):
    """Design-level model checking: a violation here is NOT a verdict about the code (DESIGN.md, P1)."""
    r = tlc(module, cfg, **kw)
    if r.error:
        raise Inconclusive("%s/%s: %s" % (module, cfg, r.error))
    return r


def trace_violation_line(r):
    """For trace specs with variable l: position of the last state TLC printed."""
    ls = re.findall(r"^/?\\? ?l = (\d+)", r.output, re.M)
    ls2 = re.findall(r"\bl = (\d+)", r.output)
    v = ls or ls2
    return int(v[-1]) if v else None


def read_ndjson(path):
    with open(path) as f:
        return [json.loads(x) for x in f if x.strip()]


def load_known():
    if not os.path.exists(KNOWN):
        return []
    with open(KNOWN) as f:
        return json.load(f).get("findings", [])


def known_match(pid, sig):
    """sig: dict describing the failing case.  A finding matches when all keys of its 'match' agree."""
    for k in load_known():
        if k.get("property") != pid or k.get("status") != "known":
            continue
        if all(sig.get(a) == b for a, b in k.get("match", {}).items()):
            return k
    return None


def save_replay(pid, name, payload):
    os.makedirs(REPLAYS, exist_ok=True)
    path = os.path.join(REPLAYS, "%s_%s.json" % (pid, name))
    with open(path, "w") as f:
        json.dump(payload, f, indent=1, sort_keys=True)
    return path


CURRENT = None   # the report of the running check (bin/check: violations of completed parts survive an inconclusive later part)


class Report:
    """Collects what a check run covered and produces evidence + exit code."""

    def __init__(self, pid, tier, seed, level="model_checking"):
        self.pid, self.tier, self.seed, self.level = pid, tier, seed, level
        global CURRENT
        CURRENT = self
        self.t0 = time.time()
        self.states = 0
        self.transitions = 0
        self.traces = 0
        self.evaluations = 0
        self.distinct = set()
        self.samples = []
        self.violations = []     # (replay_path, text)
        self.known = []          # text
        self.drift = []
        self.assumptions = []
        self.extra = {}
        self.parts = []
        self.exhaustive = None
        self.replay_of = None

    def add_tlc(self, r, what):
        self.states += r.distinct
        self.transitions += r.generated
        self.parts.append({"what": what, "generated": r.generated, "distinct": r.distinct, "depth": r.depth,
                           "wall_s": round(r.wall, 1)})

    def sample(self, s, limit=6):
        if len(self.samples) < limit:
            self.samples.append(s)

    def violation(self, replay, text):
        self.violations.append((replay, text))

    def finish(self):
        cov = {"states": max(self.states, 0), "transitions": max(self.transitions, 0),
               "traces_validated_against_impl": self.traces, "samples": self.samples or ["(none)"],
               "evaluations": self.evaluations, "distinct_nontrivial": len(self.distinct),
               "parts": self.parts, "known_findings_seen": self.known, "drift": self.drift[:20]}
        if self.exhaustive is not None:
            cov["exhaustive"] = self.exhaustive
        cov.update(self.extra)
        ev = {"property_id": self.pid, "tier": self.tier, "seed": self.seed, "level": self.level, "coverage": cov,
              "assumptions": self.assumptions, "wall_s": round(time.time() - self.t0, 2),
              "violations": len(self.violations)}
        os.makedirs(EVIDENCE, exist_ok=True)
        with open(os.path.join(EVIDENCE, self.pid + ".json"), "w") as f:
            json.dump(ev, f, indent=1)
        for k in self.known:
            print("KNOWN-FINDING: property=%s %s" % (self.pid, k))
        for d in self.drift[:10]:
            print("DRIFT: property=%s %s" % (self.pid, d))
        for replay, text in self.violations:
            print("VIOLATION property=%s replay=%s" % (self.pid, replay))
            print("  " + text)
        print("%s %s tier=%s seed=%d states=%d transitions=%d traces=%d wall=%.1fs" % (
            self.pid, "VIOLATED" if self.violations else "held", self.tier, self.seed, self.states, self.transitions,
            self.traces, time.time() - self.t0))
        return 1 if self.violations else 0
