----------------------------- MODULE BlockProof -----------------------------
(* ValidateBlockConsensus as C02 words it: (block, proof) is acceptable only if the proof is a *)
(* COMMIT certificate for this instance, the block's height and a hash the block satisfies,     *)
(* signed by pairwise distinct committee members whose signatures verify and whose weight       *)
(* reaches the quorum (strict) or exceeds f (soft), with a valid random-seed signature.         *)
(* Abstract proof: [bad, ht, inst, h, x, signers: Seq([s, sig]), seedok]; block: [nil, h, x].   *)
EXTENDS LHMessages
ValidBlockProof(p, blk, mode) ==
  /\ ~p.bad /\ ~blk.nil
  /\ p.ht = "C" /\ p.inst = 0 /\ p.h = blk.h /\ p.x = blk.x /\ blk.x # "?"
  /\ \A i \in DOMAIN p.signers : p.signers[i].sig /\ p.signers[i].s \in Members(blk.h)
  /\ Distinct([i \in DOMAIN p.signers |-> p.signers[i].s])
  /\ IF mode = "soft" THEN HasHonest(blk.h, {p.signers[i].s : i \in DOMAIN p.signers})
                      ELSE IsQuorum(blk.h, {p.signers[i].s : i \in DOMAIN p.signers})
  /\ p.seedok
=============================================================================
