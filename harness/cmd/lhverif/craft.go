package main

// The adversary's workshop.  A Byzantine strategy can (a) sign anything with the keys of Byzantine
// members and outsiders, (b) replay any signed part it has seen (captured from honest traffic) inside any
// container, (c) attach forged (random) signatures and arbitrary unsigned parts.  The crafting functions
// enforce exactly that: a "genuine" signature by an honest identity is only available if the identical
// content was signed by that identity in captured traffic.

import (
	"sort"
	"fmt"

	"github.com/orbs-network/lean-helix-go/services/interfaces"
	"github.com/orbs-network/lean-helix-go/services/randomseed"
	"github.com/orbs-network/lean-helix-go/spec/types/go/primitives"
	"github.com/orbs-network/lean-helix-go/spec/types/go/protocol"
)

type capKey struct {
	id      string
	height  uint64
	content string
}

type adversary struct {
	cl      *cluster
	sigs    map[capKey][]byte // captured honest signatures by (signer, height, content)
	shares  map[capKey][]byte
	forged  int
	vcSeen  []*interfaces.ViewChangeMessage // honest VIEW_CHANGE messages seen (whole, with block)
	ppSeen  []*interfaces.PreprepareMessage // honest proposals seen (incl. those embedded in NEW_VIEW)
	pSeen   []*interfaces.PrepareMessage
	cSeen   []*interfaces.CommitMessage
	nvSeen  []*interfaces.NewViewMessage
	rawSeen []*interfaces.ConsensusRawMessage
	target  primitives.MemberId // the node the message being crafted is made for
}

func newAdversary(cl *cluster) *adversary {
	return &adversary{cl: cl, sigs: map[capKey][]byte{}, shares: map[capKey][]byte{}}
}

func (a *adversary) canSignAs(id primitives.MemberId) bool {
	for i, x := range a.cl.ids {
		if x.Equal(id) {
			return i >= a.cl.nMembers || a.cl.byz[i]
		}
	}
	return false
}

func (a *adversary) capture(id primitives.MemberId, height primitives.BlockHeight, content []byte, sig []byte) {
	a.sigs[capKey{string(id), uint64(height), string(content)}] = append([]byte{}, sig...)
}

// observe records every signed part of a message sent by a correct node.
func (a *adversary) observe(raw *interfaces.ConsensusRawMessage) {
	defer func() { recover() }()
	a.rawSeen = append(a.rawSeen, raw)
	switch m := interfaces.ToConsensusMessage(raw).(type) {
	case *interfaces.PreprepareMessage:
		h := m.Content().SignedHeader()
		a.capture(m.SenderMemberId(), h.BlockHeight(), h.Raw(), m.Content().Sender().Signature())
		a.ppSeen = append(a.ppSeen, m)
	case *interfaces.PrepareMessage:
		h := m.Content().SignedHeader()
		a.capture(m.SenderMemberId(), h.BlockHeight(), h.Raw(), m.Content().Sender().Signature())
		a.pSeen = append(a.pSeen, m)
	case *interfaces.CommitMessage:
		h := m.Content().SignedHeader()
		a.capture(m.SenderMemberId(), h.BlockHeight(), h.Raw(), m.Content().Sender().Signature())
		a.shares[capKey{string(m.SenderMemberId()), uint64(h.BlockHeight()), ""}] = append([]byte{}, m.Content().Share()...)
		a.cSeen = append(a.cSeen, m)
	case *interfaces.ViewChangeMessage:
		h := m.Content().SignedHeader()
		a.capture(m.SenderMemberId(), h.BlockHeight(), h.Raw(), m.Content().Sender().Signature())
		a.vcSeen = append(a.vcSeen, m)
	case *interfaces.NewViewMessage:
		h := m.Content().SignedHeader()
		a.capture(m.SenderMemberId(), h.BlockHeight(), h.Raw(), m.Content().Sender().Signature())
		pp := m.Content().Message()
		a.capture(pp.Sender().MemberId(), pp.SignedHeader().BlockHeight(), pp.SignedHeader().Raw(), pp.Sender().Signature())
		a.ppSeen = append(a.ppSeen, interfaces.NewPreprepareMessage(pp, m.Block()))
		a.nvSeen = append(a.nvSeen, m)
	}
}

func (a *adversary) forge() []byte {
	a.forged++
	return []byte(fmt.Sprintf("forged-signature-%06d-xxxxxxxxxxxx", a.forged))
}

// sig: the best signature the adversary can put under (id, height, content): a real one if it holds the
// key or captured one, else a forgery.  mode "forged" forces a forgery.
func (a *adversary) sig(id primitives.MemberId, height primitives.BlockHeight, content []byte, mode string) *protocol.SenderSignatureBuilder {
	var s []byte
	switch {
	case mode == "forged":
		s = a.forge()
	case mode == "empty":
		s = []byte{}
	case mode == "otherinst":
		// the same members, with the same keys, also run ANOTHER instance of the protocol: what they sign there is genuine and the
		// adversary may replay it here.  Only used for content whose signed header carries another instance id (an over-approximation
		// of what that instance would sign, which is safe: nothing signed for another instance may have any effect in this one)
		s = a.cl.ring.sign(id, uint64(height), content)
	case a.canSignAs(id):
		s = a.cl.ring.sign(id, uint64(height), content)
	default:
		if c, ok := a.sigs[capKey{string(id), uint64(height), string(content)}]; ok {
			s = c
		} else {
			s = a.forge()
		}
	}
	return &protocol.SenderSignatureBuilder{MemberId: id, Signature: s}
}

func (a *adversary) seedBytes(height uint64) []byte {
	if b, ok := a.cl.expectedSeed(height); ok {
		return b
	}
	return randomseed.RandomSeedToBytes(0)
}

func (a *adversary) share(id primitives.MemberId, height primitives.BlockHeight, mode string) []byte {
	switch {
	case mode == "forged":
		return a.forge()
	case mode == "otherinst": // see sig(): the member's own share, as it would send it in the other instance
		return a.cl.ring.share(id, uint64(height), a.seedBytes(uint64(height)))
	case mode == "other": // the valid share of the next identity, computed with its key (lone-node tables: every key is held)
		for i, x := range a.cl.ids {
			if x.Equal(id) {
				o := a.cl.ids[(i+1)%a.cl.nMembers]
				return a.cl.ring.share(o, uint64(height), a.seedBytes(uint64(height)))
			}
		}
		return a.forge()
	case mode == "stolen": // the (valid) share some OTHER member put into its own COMMIT at this height, replayed under this sender's name
		var keys []string
		for k := range a.shares {
			if k.height == uint64(height) && k.content == "" && k.id != string(id) {
				keys = append(keys, k.id)
			}
		}
		if len(keys) == 0 {
			return a.forge()
		}
		sort.Strings(keys)
		return a.shares[capKey{keys[0], uint64(height), ""}]
	case a.canSignAs(id):
		return a.cl.ring.share(id, uint64(height), a.seedBytes(uint64(height)))
	default:
		if c, ok := a.shares[capKey{string(id), uint64(height), ""}]; ok {
			return c
		}
		return a.forge()
	}
}

type refD struct {
	ht   protocol.MessageType
	inst primitives.InstanceId
	h    uint64
	v    uint64
	hash primitives.BlockHash
}

func (r refD) builder() *protocol.BlockRefBuilder {
	return &protocol.BlockRefBuilder{MessageType: r.ht, InstanceId: r.inst, BlockHeight: primitives.BlockHeight(r.h), View: primitives.View(r.v), BlockHash: r.hash}
}

func wrap(c *protocol.LeanhelixContentBuilder, block interfaces.Block) *interfaces.ConsensusRawMessage {
	return &interfaces.ConsensusRawMessage{Content: c.Build().Raw(), Block: block}
}

func (a *adversary) mkPP(r refD, sender primitives.MemberId, mode string, block interfaces.Block) *interfaces.ConsensusRawMessage {
	b := r.builder()
	pc := &protocol.PreprepareContentBuilder{SignedHeader: b, Sender: a.sig(sender, primitives.BlockHeight(r.h), b.Build().Raw(), mode)}
	return wrap(&protocol.LeanhelixContentBuilder{Message: protocol.LEANHELIX_CONTENT_MESSAGE_PREPREPARE_MESSAGE, PreprepareMessage: pc}, block)
}

func (a *adversary) mkP(r refD, sender primitives.MemberId, mode string) *interfaces.ConsensusRawMessage {
	b := r.builder()
	pc := &protocol.PrepareContentBuilder{SignedHeader: b, Sender: a.sig(sender, primitives.BlockHeight(r.h), b.Build().Raw(), mode)}
	return wrap(&protocol.LeanhelixContentBuilder{Message: protocol.LEANHELIX_CONTENT_MESSAGE_PREPARE_MESSAGE, PrepareMessage: pc}, nil)
}

func (a *adversary) mkC(r refD, sender primitives.MemberId, mode string, shareMode string) *interfaces.ConsensusRawMessage {
	b := r.builder()
	cc := &protocol.CommitContentBuilder{SignedHeader: b, Sender: a.sig(sender, primitives.BlockHeight(r.h), b.Build().Raw(), mode),
		Share: a.share(sender, primitives.BlockHeight(r.h), shareMode)}
	return wrap(&protocol.LeanhelixContentBuilder{Message: protocol.LEANHELIX_CONTENT_MESSAGE_COMMIT_MESSAGE, CommitMessage: cc}, nil)
}

// proofD: a prepared proof assembled from whatever signatures the adversary can get.
type proofD struct {
	pp      refD
	ppBy    primitives.MemberId
	ppMode  string
	p       refD
	pBy     []primitives.MemberId
	pModes  []string
	present bool
}

func (a *adversary) proofBuilder(p proofD) *protocol.PreparedProofBuilder {
	if !p.present {
		return nil
	}
	ppb, pb := p.pp.builder(), p.p.builder()
	out := &protocol.PreparedProofBuilder{PreprepareBlockRef: ppb, PrepareBlockRef: pb,
		PreprepareSender: a.sig(p.ppBy, primitives.BlockHeight(p.pp.h), ppb.Build().Raw(), p.ppMode)}
	for i, id := range p.pBy {
		mode := ""
		if i < len(p.pModes) {
			mode = p.pModes[i]
		}
		out.PrepareSenders = append(out.PrepareSenders, a.sig(id, primitives.BlockHeight(p.p.h), pb.Build().Raw(), mode))
	}
	return out
}

type voteD struct {
	ht     protocol.MessageType
	inst   primitives.InstanceId
	h, v   uint64
	sender primitives.MemberId
	mode   string
	proof  proofD
}

func (a *adversary) voteBuilder(v voteD) *protocol.ViewChangeMessageContentBuilder {
	hd := &protocol.ViewChangeHeaderBuilder{MessageType: v.ht, InstanceId: v.inst, BlockHeight: primitives.BlockHeight(v.h), View: primitives.View(v.v),
		PreparedProof: a.proofBuilder(v.proof)}
	return &protocol.ViewChangeMessageContentBuilder{SignedHeader: hd, Sender: a.sig(v.sender, primitives.BlockHeight(v.h), hd.Build().Raw(), v.mode)}
}

func (a *adversary) mkVC(v voteD, block interfaces.Block) *interfaces.ConsensusRawMessage {
	return wrap(&protocol.LeanhelixContentBuilder{Message: protocol.LEANHELIX_CONTENT_MESSAGE_VIEW_CHANGE_MESSAGE, ViewChangeMessage: a.voteBuilder(v)}, block)
}

// genuineVote re-embeds a captured honest VIEW_CHANGE exactly as it was sent.
func genuineVote(m *interfaces.ViewChangeMessage) *protocol.ViewChangeMessageContentBuilder {
	return interfaces.ExtractConfirmationsFromViewChangeMessages([]*interfaces.ViewChangeMessage{m})[0]
}

type nvD struct {
	ht     protocol.MessageType // 0: LEAN_HELIX_NEW_VIEW
	inst   primitives.InstanceId
	h, v   uint64
	sender primitives.MemberId
	mode   string
	votes  []*protocol.ViewChangeMessageContentBuilder
	pp     refD
	ppBy   primitives.MemberId
	ppMode string
}

func (a *adversary) mkNV(d nvD, block interfaces.Block) *interfaces.ConsensusRawMessage {
	ht := protocol.LEAN_HELIX_NEW_VIEW
	if d.ht != 0 {
		ht = d.ht
	}
	hd := &protocol.NewViewHeaderBuilder{MessageType: ht, InstanceId: d.inst, BlockHeight: primitives.BlockHeight(d.h), View: primitives.View(d.v),
		ViewChangeConfirmations: d.votes}
	ppb := d.pp.builder()
	nc := &protocol.NewViewMessageContentBuilder{SignedHeader: hd, Sender: a.sig(d.sender, primitives.BlockHeight(d.h), hd.Build().Raw(), d.mode),
		Message: &protocol.PreprepareContentBuilder{SignedHeader: ppb, Sender: a.sig(d.ppBy, primitives.BlockHeight(d.pp.h), ppb.Build().Raw(), d.ppMode)}}
	return wrap(&protocol.LeanhelixContentBuilder{Message: protocol.LEANHELIX_CONTENT_MESSAGE_NEW_VIEW_MESSAGE, NewViewMessage: nc}, block)
}

// ---- non-canonical encodings: membuffers readers ignore bytes after the last field of a nested message, but
// Raw() of the signed header includes them.  The Byzantine signer signs exactly the padded bytes.

func rawField(b []byte) []byte {
	out := make([]byte, 4, 4+len(b)+4)
	out[0], out[1], out[2], out[3] = byte(len(b)), byte(len(b)>>8), byte(len(b)>>16), byte(len(b)>>24)
	out = append(out, b...)
	for len(out)%4 != 0 {
		out = append(out, 0)
	}
	return out
}

// alignmentBytes: positions inside an encoded BlockRef that no reader looks at (alignment padding): changing them changes the
// bytes a signature covers, but none of the fields and not the length
func alignmentBytes(header []byte) []int {
	ref := protocol.BlockRefReader(header)
	if !ref.IsValid() {
		return nil
	}
	same := func(b []byte) bool {
		r := protocol.BlockRefReader(b)
		return r.IsValid() && r.MessageType() == ref.MessageType() && r.InstanceId() == ref.InstanceId() && r.BlockHeight() == ref.BlockHeight() &&
			r.View() == ref.View() && string(r.BlockHash()) == string(ref.BlockHash())
	}
	var out []int
	for i := range header {
		c := append([]byte{}, header...)
		c[i] ^= 0xEE
		if same(c) {
			out = append(out, i)
		}
	}
	return out
}

var paddedCalls int

// paddedSigned: a non-canonical encoding of the header, signed as sent - alternately trailing bytes after the last field and
// non-zero alignment bytes inside a BlockRef (same length, same fields)
func (a *adversary) paddedSigned(signer primitives.MemberId, height uint64, header []byte, pad int) (hdr []byte, sender []byte) {
	paddedCalls++
	if al := alignmentBytes(header); len(al) > 0 && paddedCalls%2 == 0 {
		hdr = append([]byte{}, header...)
		for _, i := range al {
			hdr[i] = 0xEE
		}
		sig := a.cl.ring.sign(signer, height, hdr)
		sender = (&protocol.SenderSignatureBuilder{MemberId: signer, Signature: sig}).Build().Raw()
		return
	}
	hdr = append(append([]byte{}, header...), make([]byte, pad)...)
	for i := len(header); i < len(hdr); i++ {
		hdr[i] = 0xEE
	}
	sig := a.cl.ring.sign(signer, height, hdr)
	sender = (&protocol.SenderSignatureBuilder{MemberId: signer, Signature: sig}).Build().Raw()
	return
}

func (a *adversary) mkPaddedP(r refD, signer primitives.MemberId) *interfaces.ConsensusRawMessage {
	hdr, snd := a.paddedSigned(signer, r.h, r.builder().Build().Raw(), 4)
	raw := append(rawField(hdr), rawField(snd)...)
	return wrap(&protocol.LeanhelixContentBuilder{Message: protocol.LEANHELIX_CONTENT_MESSAGE_PREPARE_MESSAGE, PrepareMessage: protocol.PrepareContentBuilderFromRaw(raw)}, nil)
}

// mkPaddedPP: a PREPREPARE whose signed header carries trailing bytes (signed as sent); the block is attached as usual
func (a *adversary) mkPaddedPP(r refD, signer primitives.MemberId, block interfaces.Block) *interfaces.ConsensusRawMessage {
	hdr, snd := a.paddedSigned(signer, r.h, r.builder().Build().Raw(), 4)
	raw := append(rawField(hdr), rawField(snd)...)
	return wrap(&protocol.LeanhelixContentBuilder{Message: protocol.LEANHELIX_CONTENT_MESSAGE_PREPREPARE_MESSAGE, PreprepareMessage: protocol.PreprepareContentBuilderFromRaw(raw)}, block)
}

func (a *adversary) mkPaddedC(r refD, signer primitives.MemberId) *interfaces.ConsensusRawMessage {
	hdr, snd := a.paddedSigned(signer, r.h, r.builder().Build().Raw(), 4)
	raw := append(append(rawField(hdr), rawField(snd)...), rawField(a.share(signer, primitives.BlockHeight(r.h), ""))...)
	return wrap(&protocol.LeanhelixContentBuilder{Message: protocol.LEANHELIX_CONTENT_MESSAGE_COMMIT_MESSAGE, CommitMessage: protocol.CommitContentBuilderFromRaw(raw)}, nil)
}

func (a *adversary) mkPaddedVC(v voteD, block interfaces.Block) *interfaces.ConsensusRawMessage {
	hd := &protocol.ViewChangeHeaderBuilder{MessageType: v.ht, InstanceId: v.inst, BlockHeight: primitives.BlockHeight(v.h), View: primitives.View(v.v), PreparedProof: a.proofBuilder(v.proof)}
	hdr, snd := a.paddedSigned(v.sender, v.h, hd.Build().Raw(), 4)
	raw := append(rawField(hdr), rawField(snd)...)
	return wrap(&protocol.LeanhelixContentBuilder{Message: protocol.LEANHELIX_CONTENT_MESSAGE_VIEW_CHANGE_MESSAGE, ViewChangeMessage: protocol.ViewChangeMessageContentBuilderFromRaw(raw)}, block)
}
