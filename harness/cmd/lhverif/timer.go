package main

// C19 (trigger machine): the real TimerBasedElectionTrigger under a randomised driver.

import (
	"flag"
	"fmt"
	"sync"
	"time"

	"github.com/orbs-network/lean-helix-go/services/electiontrigger"
	"github.com/orbs-network/lean-helix-go/services/interfaces"
	"github.com/orbs-network/lean-helix-go/spec/types/go/primitives"
)

func init() { register("timer", cmdTimer) }

func cmdTimer(args []string) int {
	fs := flag.NewFlagSet("timer", flag.ExitOnError)
	outPath := fs.String("out", "timer.ndjson", "")
	seed := fs.Int64("seed", 1, "")
	sessions := fs.Int("sessions", 20, "")
	ops := fs.Int("ops", 40, "")
	fs.Parse(args)
	out := newNdjson(*outPath)
	out.watchdog(60*time.Second, func() obj { return obj{"ev": "hang"} }) // (a session's events are written when it ends: a session takes well under a second)
	defer out.close()
	const baseUs = 2000
	for s := 0; s < *sessions; s++ {
		rnd := newRand(*seed*104729 + int64(s))
		var mu sync.Mutex
		var events []obj
		t0 := time.Now()
		now := func() int { return int(time.Since(t0) / time.Microsecond) }
		log := func(e obj) {
			mu.Lock()
			events = append(events, e)
			mu.Unlock()
		}
		log(obj{"ev": "session", "s": s, "base": baseUs})
		et := Electiontrigger.NewTimerBasedElectionTrigger(baseUs*time.Microsecond, nil)
		cb := func(blockHeight primitives.BlockHeight, view primitives.View, onElectionCB interfaces.OnElectionCallback) {
		}
		// reader: prompt / slow / absent phases
		mode := make(chan int, 1)
		curMode := 0
		stopReader := make(chan struct{})
		var wg sync.WaitGroup
		wg.Add(1)
		var lastRecv *interfaces.ElectionTrigger
		go func() {
			defer wg.Done()
			for {
				select {
				case <-stopReader:
					return
				case m := <-mode:
					curMode = m
				default:
				}
				if curMode == 2 { // absent
					time.Sleep(200 * time.Microsecond)
					continue
				}
				select {
				case tr := <-et.ElectionChannel():
					mu.Lock()
					events = append(events, obj{"ev": "recv", "h": int(tr.Hv.Height()), "v": int(tr.Hv.View()), "t": now(), "base": baseUs})
					lastRecv = tr
					mu.Unlock()
					if curMode == 1 {
						time.Sleep(time.Duration(rnd.Intn(3000)) * time.Microsecond)
					}
				case <-time.After(300 * time.Microsecond):
				}
			}
		}()
		armed := false
		var lastH, lastV int
		// a call of the trigger's own API that panics is an outcome of that call (the session ends there: the object may hold its lock)
		panicked := false
		guarded := func(op string, h, v int, f func()) {
			defer func() {
				if r := recover(); r != nil {
					panicked = true
					log(obj{"ev": "panic", "op": op, "h": h, "v": v, "t": now(), "what": fmt.Sprint(r)})
				}
			}()
			f()
		}
		for i := 0; i < *ops && !panicked; i++ {
			switch x := rnd.Intn(10); {
			case x < 5:
				h, v := 1+rnd.Intn(2), rnd.Intn(4)
				t := now()
				guarded("register", h, v, func() { et.RegisterOnElection(primitives.BlockHeight(h), primitives.View(v), cb) })
				if panicked {
					break
				}
				log(obj{"ev": "register", "h": h, "v": v, "t": t})
				if !(armed && lastH == h && lastV == v) {
					armed, lastH, lastV = true, h, v
				}
			case x < 6:
				func() {
					// Stop is called by the term under the trigger's own discipline (Dispose); the trigger's lock is taken by Register only
					guarded("stop", 0, 0, et.Stop)
					if panicked {
						return
					}
					log(obj{"ev": "stop", "t": now()})
					armed = false
				}()
			case x < 7:
				select {
				case mode <- rnd.Intn(3):
				default:
				}
			default:
				time.Sleep(time.Duration(rnd.Intn(12000)) * time.Microsecond)
			}
		}
		// final phase: a fresh registration, prompt reader: the trigger must arrive, and carry this pair
		select {
		case <-mode:
		default:
		}
		mode <- 0
		time.Sleep(2 * time.Millisecond)
		fh, fv := 2, rnd.Intn(3)
		t := 0
		if !panicked {
			guarded("stop", 0, 0, et.Stop)
		}
		if !panicked {
			log(obj{"ev": "stop", "t": now()})
			time.Sleep(5 * time.Millisecond) // let a trigger that raced the stop drain
			mu.Lock()
			lastRecv = nil
			mu.Unlock()
			t = now()
			guarded("register", fh, fv, func() { et.RegisterOnElection(primitives.BlockHeight(fh), primitives.View(fv), cb) })
		}
		if panicked {
			close(stopReader)
			wg.Wait()
			mu.Lock()
			for _, e := range events {
				out.emit(e)
			}
			mu.Unlock()
			continue
		}
		log(obj{"ev": "register", "h": fh, "v": fv, "t": t})
		deadline := time.Now().Add(time.Duration(baseUs*(1<<uint(fv)))*time.Microsecond + 300*time.Millisecond)
		received := false
		rh, rv := 0, 0
		for time.Now().Before(deadline) {
			mu.Lock()
			if lastRecv != nil {
				received, rh, rv = true, int(lastRecv.Hv.Height()), int(lastRecv.Hv.View())
			}
			mu.Unlock()
			if received {
				break
			}
			time.Sleep(200 * time.Microsecond)
		}
		log(obj{"ev": "final", "armed": true, "received": received, "h": fh, "v": fv, "rh": rh, "rv": rv})
		et.Stop()
		close(stopReader)
		wg.Wait()
		mu.Lock()
		for _, e := range events {
			out.emit(e)
		}
		mu.Unlock()
	}
	fmt.Printf("lines=%d sessions=%d\n", out.n, *sessions)
	return 0
}
