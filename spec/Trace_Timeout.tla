---------------------------- MODULE Trace_Timeout ----------------------------
(* P4 for C19: each line is CalcTimeout(base, v) of the real trigger plus the value for a  *)
(* lower view lo < v.  vsmall is v when v < 2^20, else -1 (then the product cannot fit).  *)
EXTENDS Timeout, Json, IOUtils
Trace == ndJsonDeserialize(IOEnv.VERIF_TRACE)
VARIABLE l
Init == l = 1
Next == l < Len(Trace) /\ l' = l + 1
Chk(cond, tag) == cond \/ PrintT(<<"VERIF_BAD", tag, l>>)
LineOK == LET e == Trace[l]
              fits == e.vsmall >= 0 /\ Fits(e.base, e.vsmall)
          IN /\ Chk(~e.neg /\ e.t # Zero, "not_positive")
             /\ Chk(fits => (~e.neg /\ e.t = Exact(e.base, e.vsmall)), "not_base_times_2_pow_v")
             /\ Chk(e.neg \/ e.tlo_neg \/ Le(e.tlo, e.t), "not_monotone")
=============================================================================
