"""C19 election timer.  Part 1 (formula): CalcTimeout of the real trigger tabulated for views 0..200,
boundary classes up to 2^64-1 and several bases; TLC checks positivity, base*2^v when it fits, and
monotonicity against a lower view (Timeout.tla).  Part 2 (trigger machine) is in props/c19_timer.py."""
import json, os, shutil
import vlib
from props import tables

PID = "C19"


def _classify(line, tags):
    v = tables.big(line["v"])
    sig = {"tags": tags, "part": "formula"}
    return sig, "CalcTimeout(base=%dns, view=%d) = %s%d ns: %s" % (
        tables.big(line["base"]), v, "-" if line["neg"] else "", tables.big(line["t"]), ",".join(tags))


def formula(rep, tier, seed, replay_in=None):
    args = ["-seed", seed, "-rand", 500 if tier == "quick" else 20000]
    tables.run_table(rep, PID, "timeout", args, "Trace_Timeout", "Trace_Timeout.cfg", _classify, replay_in=replay_in,
                     distinct_key=lambda e: [e["base"], e["v"], e["lo"]])


def run(tier, seed):
    rep = vlib.Report(PID, tier, seed)
    rep.assumptions = ["saturation value is not pinned: any positive, monotone value is accepted once base*2^v exceeds int64"]
    formula(rep, tier, seed)
    try:
        from props import c19_timer
    except ImportError:
        c19_timer = None
    if c19_timer:
        c19_timer.machine(rep, tier, seed)
    # the way of a trigger from the scheduler through the main loop's single-slot hand-over to the worker (real runtime)
    from props import runtime
    rep.assumptions += runtime.ASSUME
    runtime.judge(rep, PID, tier, seed)
    return rep.finish()


def replay(path, seed):
    rep = vlib.Report(PID, "quick", seed)
    rep.replay_of = path
    payload = json.load(open(path))
    wd = vlib.scratch_dir("c19r")
    try:
        if payload.get("kind") == "runtime-run":
            from props import runtime
            runtime.replay(rep, payload, seed)
        elif payload.get("kind") == "timeout-line":
            formula(rep, "quick", seed, replay_in=tables.replay_line(payload, wd))
        else:
            from props import c19_timer
            c19_timer.replay(rep, payload, seed)
    finally:
        shutil.rmtree(wd, ignore_errors=True)
    return rep.finish()
