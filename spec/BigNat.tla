------------------------------- MODULE BigNat -------------------------------
(* Fixed-width natural numbers for values that do not fit TLC's 32-bit integers.       *)
(* A number is a sequence of LIMBS digits in base 2^15, most significant digit first.  *)
(* LIMBS = 10 gives 150 bits: enough for sums of 64-bit weights and for base * 2^63.   *)
(* All intermediate TLC integers stay below 2^22.                                      *)
(* Every loop is a FoldLeft (Java-evaluated, strict): TLC passes arguments of RECURSIVE *)
(* operators lazily without caching, which makes naive digit recursion exponential.    *)
EXTENDS Integers, Sequences, SequencesExt, TLC

BASE  == 32768
LIMBS == 10
Idx   == [i \in 1..LIMBS |-> i]
UpTo(n) == [i \in 1..n |-> i]

IsBig(a) == /\ Len(a) = LIMBS
            /\ \A i \in 1..LIMBS : a[i] \in 0..(BASE - 1)

Zero == [i \in 1..LIMBS |-> 0]
One  == [i \in 1..LIMBS |-> IF i = LIMBS THEN 1 ELSE 0]

\* small TLC integer (0 <= n < 2^30) -> big
FromInt(n) == [i \in 1..LIMBS |->
                 IF i = LIMBS THEN n % BASE
                 ELSE IF i = LIMBS - 1 THEN (n \div BASE) % BASE
                 ELSE IF i = LIMBS - 2 THEN (n \div (BASE * BASE)) % BASE
                 ELSE 0]

\* lexicographic comparison: -1, 0, 1
Cmp(a, b) == FoldLeft(LAMBDA acc, i : IF acc # 0 THEN acc
                                      ELSE IF a[i] < b[i] THEN -1
                                      ELSE IF a[i] > b[i] THEN 1 ELSE 0, 0, Idx)
Lt(a, b) == Cmp(a, b) = -1
Le(a, b) == Cmp(a, b) <= 0

\* addition, least significant digit first, carry in the accumulator (wraps at BASE^LIMBS)
Add(a, b) == FoldLeft(LAMBDA acc, i : LET s == a[LIMBS + 1 - i] + b[LIMBS + 1 - i] + acc.c
                                      IN [c |-> s \div BASE, d |-> <<s % BASE>> \o acc.d],
                      [c |-> 0, d |-> <<>>], Idx).d

\* Sub(a, b) assumes Le(b, a)
Sub(a, b) == FoldLeft(LAMBDA acc, i : LET s == a[LIMBS + 1 - i] - b[LIMBS + 1 - i] - acc.c
                                      IN [c |-> IF s < 0 THEN 1 ELSE 0, d |-> <<(s + BASE) % BASE>> \o acc.d],
                      [c |-> 0, d |-> <<>>], Idx).d

\* division and remainder by a small positive TLC integer k (k <= 64), most significant digit first
DivMod(a, k) == FoldLeft(LAMBDA acc, i : LET t == acc.r * BASE + a[i]
                                         IN [r |-> t % k, q |-> Append(acc.q, t \div k)],
                         [r |-> 0, q |-> <<>>], Idx)
DivSmall(a, k) == DivMod(a, k).q
ModSmall(a, k) == DivMod(a, k).r

Double(a) == Add(a, a)
ShiftLeft(a, n) == FoldLeft(LAMBDA acc, i : Double(acc), a, UpTo(n))
Sum(s) == FoldLeft(LAMBDA acc, x : Add(acc, x), Zero, s)

\* 2^n, 2^63 - 1 (largest time.Duration) and 2^64 - 1
Pow2(n) == ShiftLeft(One, n)
MaxInt64  == Sub(Pow2(63), One)
MaxUint64 == Sub(Pow2(64), One)
=============================================================================
