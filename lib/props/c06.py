"""C06 quorum arithmetic: Quorum.tla laws model-checked over all small weight vectors; the real
quorum functions tabulated on small, boundary (2^53, 2^63, 2^64-1, 3m+-1) and random 64-bit totals and
every recorded (input, output) line checked by TLC against the BigNat transcription of the spec."""
import json, os, shutil
import vlib
from props import tables

PID = "C06"


def _classify(line, tags):
    w = [sum(d * 32768 ** (9 - i) for i, d in enumerate(x)) for x in line["w"]]
    return {"op": line["op"], "tags": sorted(set(tags)), "total": sum(w), "total_above_2p53": sum(w) > 2 ** 53}


def _run(rep, tier, seed, trace_in=None):
    wd = vlib.scratch_dir("c06")
    try:
        if trace_in is None:
            cfg = "MC_Quorum_quick.cfg" if tier == "quick" else "MC_Quorum_thorough.cfg"
            r = vlib.tlc_must_pass("MC_Quorum", cfg, timeout=1200)
            if r.violated:
                raise vlib.Inconclusive("design-level laws fail in Quorum.tla itself (%s): spec bug" % r.violated)
            rep.add_tlc(r, "Quorum.tla laws on every weight vector (%s)" % cfg)
            trace = os.path.join(wd, "quorum.ndjson")
            n = 1500 if tier == "quick" else 12000
            vlib.run_harness(["quorum", "-out", trace, "-seed", seed, "-small", n, "-big", n], cwd=wd)
        else:
            trace = os.path.join(wd, "quorum.ndjson")
            vlib.run_harness(["quorum", "-out", trace, "-replay", trace_in], cwd=wd)
        lines, bad = tables.validate(rep, trace, "Trace_Quorum", "Trace_Quorum.cfg", wd)
        for e in lines[:3]:
            rep.sample({k: e[k] for k in e if k != "w"} | {"n_members": len(e["w"])})
        for e in lines:
            rep.distinct.add(json.dumps([e["w"], e.get("ids"), e.get("a"), e.get("b")]))
        seen = set()
        for l in sorted(bad):
            line = lines[l - 1]
            sig = _classify(line, bad[l])
            k = vlib.known_match(PID, sig)
            key = json.dumps(sig["tags"]) + str(sig["total_above_2p53"])
            if k:
                if k["id"] not in seen:
                    seen.add(k["id"])
                    rep.known.append("%s: %s" % (k["id"], k["what"]))
                continue
            if key in seen:
                continue
            seen.add(key)
            path = vlib.save_replay(PID, "line%d_seed%d" % (l, rep.seed), {"property": PID, "kind": "quorum-line", "line": line, "failed": sig})
            rep.violation(path, "real quorum functions disagree with Quorum.tla on %s (total weight %d): %s" % (
                line["op"], sig["total"], ",".join(sig["tags"])))
        rep.extra["bad_lines"] = len(bad)
    finally:
        shutil.rmtree(wd, ignore_errors=True)


def run(tier, seed):
    rep = vlib.Report(PID, tier, seed)
    rep.assumptions = ["weight totals fit in 64 bits (as the property states)",
                       "BigNat.tla limb arithmetic is the transcription of Quorum.tla's integer definitions",
                       "laws over unbounded totals rest on the arithmetic being checked exactly per call (f, Q recomputed by TLC)"]
    _run(rep, tier, seed)
    return rep.finish()


def replay(path, seed):
    rep = vlib.Report(PID, "quick", seed)
    wd = vlib.scratch_dir("c06r")
    src = os.path.join(wd, "in.ndjson")
    with open(path) as f:
        payload = json.load(f)
    with open(src, "w") as f:
        f.write(json.dumps(payload["line"]) + "\n")
    try:
        _run(rep, "quick", seed, trace_in=src)
    finally:
        shutil.rmtree(wd, ignore_errors=True)
    return rep.finish()
