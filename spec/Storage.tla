------------------------------- MODULE Storage -------------------------------
(* The message log of a node (services/storage InMemoryStorage) as step functions over a state  *)
(* record, bound to the real object by tree traces (Trace_Storage.tla).                          *)
(*   st.pp : set of [h, v, x, s]   the proposal stored per (height, view): the FIRST one wins    *)
(*   st.ps, st.cs : sets of [h, v, x, s]   PREPAREs / COMMITs, one per (height, view, hash, sender) *)
(*   st.vs : set of [h, v, s]      VIEW_CHANGE votes, one per (height, view, sender)             *)
(* The term's decisions read the log only through the getters below: quorums are counted per     *)
(* exact (height, view, hash); C10 (one proposal per view, COMMIT only on a certificate for       *)
(* exactly that pair) and C08 (what is counted) depend on them.                                   *)
EXTENDS Integers, FiniteSets
Empty == [pp |-> {}, ps |-> {}, cs |-> {}, vs |-> {}]

HasPPAt(st, h, v) == \E p \in st.pp : p.h = h /\ p.v = v
StoreR(st, k, m) ==
  CASE k = "PP" -> IF HasPPAt(st, m.h, m.v) THEN [res |-> FALSE, st |-> st]
                   ELSE [res |-> TRUE, st |-> [st EXCEPT !.pp = @ \cup {m}]]
    [] k = "P"  -> [res |-> m \notin st.ps, st |-> [st EXCEPT !.ps = @ \cup {m}]]
    [] k = "C"  -> [res |-> m \notin st.cs, st |-> [st EXCEPT !.cs = @ \cup {m}]]
    [] k = "VC" -> LET key == [h |-> m.h, v |-> m.v, s |-> m.s] IN
                   [res |-> key \notin st.vs, st |-> [st EXCEPT !.vs = @ \cup {key}]]

\* ClearBlockHeightLogs(h): the logs of h and of h-1 are dropped
ClearR(st, h) ==
  LET gone(e) == e.h = h \/ (h > 0 /\ e.h = h - 1) IN
  [pp |-> {e \in st.pp : ~gone(e)}, ps |-> {e \in st.ps : ~gone(e)}, cs |-> {e \in st.cs : ~gone(e)}, vs |-> {e \in st.vs : ~gone(e)}]

\* getters
PPAt(st, h, v)        == {p \in st.pp : p.h = h /\ p.v = v}                      \* empty or one proposal
LatestPP(st, h)       == {p \in st.pp : p.h = h /\ \A q \in st.pp : q.h = h => q.v <= p.v}
PrepSenders(st, h, v, x) == {p.s : p \in {q \in st.ps : q.h = h /\ q.v = v /\ q.x = x}}
PrepFromView(st, h, v)   == {<<p.x, p.s>> : p \in {q \in st.ps : q.h = h /\ q.v = v}}
ComSenders(st, h, v, x)  == {p.s : p \in {q \in st.cs : q.h = h /\ q.v = v /\ q.x = x}}
ComFromView(st, h, v)    == {<<p.x, p.s>> : p \in {q \in st.cs : q.h = h /\ q.v = v}}
Voters(st, h, v)         == {p.s : p \in {q \in st.vs : q.h = h /\ q.v = v}}

\* laws (checked on the complete state graph of a small instance, MC_Storage)
OneProposalPerView(st) == \A p, q \in st.pp : (p.h = q.h /\ p.v = q.v) => p = q
Grows(a, b) == a.pp \subseteq b.pp /\ a.ps \subseteq b.ps /\ a.cs \subseteq b.cs /\ a.vs \subseteq b.vs
=============================================================================
