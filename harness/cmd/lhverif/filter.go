package main

import (
	"flag"
	"fmt"
	"time"

	"github.com/orbs-network/lean-helix-go/services/interfaces"
	L "github.com/orbs-network/lean-helix-go/services/logger"
	"github.com/orbs-network/lean-helix-go/services/messagesfactory"
	"github.com/orbs-network/lean-helix-go/services/rawmessagesfilter"
	"github.com/orbs-network/lean-helix-go/spec/types/go/primitives"
	"github.com/orbs-network/lean-helix-go/state"
	"github.com/orbs-network/lean-helix-go/test/mocks"
)

func init() { register("filter", cmdFilter) }

const filterHmax = 4

type fOp struct {
	op   string // recv | start
	h    int
	inst string // me | other
	self bool
	pat  string // none | first | second | all
}

// fRun is one real filter with the glue the worker loop provides around it: a handler per height and
// "commit" = SetHeightAndResetView(H+1) + ConsumeCacheMessages(new handler), done from inside the delivery.
type fRun struct {
	st      *state.State
	filter  *rawmessagesfilter.RawMessageFilter
	nextId  int
	out     [][]int // deliveries of the current operation: [id, handlerHeight]
	pat     string
	me      primitives.MemberId
	other   primitives.MemberId
	facMe   *messagesfactory.MessageFactory
	facOth  *messagesfactory.MessageFactory
	facInst *messagesfactory.MessageFactory
}

type fHandler struct {
	run    *fRun
	height int
}

func (h *fHandler) HandleConsensusMessage(message interfaces.ConsensusMessage) error {
	r := h.run
	r.out = append(r.out, []int{int(message.View()), h.height}) // the message id travels in the view field
	k := len(r.out)
	commits := r.pat == "all" || (r.pat == "first" && k == 1) || (r.pat == "second" && k == 2)
	if commits && int(r.st.Height()) < filterHmax {
		r.startRound(int(r.st.Height()) + 1)
	}
	return nil
}

func (r *fRun) startRound(H int) {
	if _, err := r.st.SetHeightAndResetView(primitives.BlockHeight(H)); err != nil {
		return
	}
	r.filter.ConsumeCacheMessages(&fHandler{run: r, height: H})
}

func newFRun() *fRun {
	me := memberId(1)
	other := memberId(2)
	st := state.NewState()
	cfg := &interfaces.Config{InstanceId: 7, Membership: nil}
	_ = cfg
	logger := L.NewLhLogger(&interfaces.Config{Membership: &fakeMembershipId{me}}, st)
	r := &fRun{st: st, me: me, other: other}
	r.filter = rawmessagesfilter.NewConsensusMessageFilter(7, me, logger, st)
	r.facMe = messagesfactory.NewMessageFactory(7, mocks.NewMockKeyManager(me), me, 0)
	r.facOth = messagesfactory.NewMessageFactory(7, mocks.NewMockKeyManager(other), other, 0)
	r.facInst = messagesfactory.NewMessageFactory(8, mocks.NewMockKeyManager(other), other, 0)
	return r
}

func (r *fRun) apply(o fOp) (res obj) {
	r.out = [][]int{}
	r.pat = o.pat
	// a panic of the filter is an outcome of the call: whatever it had not yet delivered is lost
	defer func() {
		if rec := recover(); rec != nil {
			res = obj{"op": o.op, "h": o.h, "inst": o.inst, "self": o.self, "pat": o.pat, "out": r.out, "cur": int(r.st.Height()), "panic": true}
		}
	}()
	switch o.op {
	case "recv":
		r.nextId++
		fac := r.facOth
		if o.inst == "other" {
			fac = r.facInst
		}
		if o.self {
			fac = r.facMe
		}
		pm := fac.CreatePrepareMessage(primitives.BlockHeight(o.h), primitives.View(r.nextId), primitives.BlockHash("x"))
		r.filter.HandleConsensusRawMessage(pm.ToConsensusRawMessage())
	case "start":
		if o.h > int(r.st.Height()) {
			r.startRound(o.h)
		}
	}
	return obj{"op": o.op, "h": o.h, "inst": o.inst, "self": o.self, "pat": o.pat, "out": r.out, "cur": int(r.st.Height()), "panic": false}
}

func cmdFilter(args []string) int {
	fs := flag.NewFlagSet("filter", flag.ExitOnError)
	outPath := fs.String("out", "filter.ndjson", "")
	seed := fs.Int64("seed", 1, "")
	depth := fs.Int("depth", 3, "")
	hmax := fs.Int("hmax", 3, "heights used by the tree (<= 4)")
	nRand := fs.Int("rand", 3000, "")
	randLen := fs.Int("randlen", 10, "")
	replay := fs.String("replay", "", "")
	fs.Parse(args)
	rnd := newRand(*seed)
	out := newNdjson(*outPath)
	out.watchdog(30*time.Second, func() obj {
		return obj{"op": "hang", "h": 0, "inst": "me", "self": false, "pat": "none", "out": [][]int{}, "cur": 0, "panic": false}
	})
	defer out.close()

	if *replay != "" {
		run := newFRun()
		for _, e := range readNdjson(*replay) {
			switch e["op"] {
			case "pop":
			case "reset":
				run = newFRun()
				out.emit(obj{"op": "reset"})
			default:
				o := fOp{op: e["op"].(string), h: int(e["h"].(float64)), pat: e["pat"].(string)}
				if o.op == "recv" {
					o.inst = e["inst"].(string)
					o.self = e["self"].(bool)
				}
				out.emit(run.apply(o))
			}
		}
		fmt.Printf("lines=%d\n", out.n)
		return 0
	}

	var ops []fOp
	for h := 0; h <= *hmax; h++ {
		ops = append(ops, fOp{"recv", h, "me", false, "none"}, fOp{"recv", h, "me", false, "first"},
			fOp{"recv", h, "other", false, "none"}, fOp{"recv", h, "me", true, "none"})
	}
	for h := 1; h <= *hmax; h++ {
		ops = append(ops, fOp{"start", h, "", false, "none"}, fOp{"start", h, "", false, "first"}, fOp{"start", h, "", false, "all"})
	}
	nodes := 0
	var walk func(path []fOp)
	walk = func(path []fOp) {
		if len(path) == *depth {
			return
		}
		for _, o := range ops {
			run := newFRun()
			for _, p := range path {
				run.apply(p)
			}
			out.emit(run.apply(o))
			nodes++
			walk(append(path, o))
			out.emit(obj{"op": "pop"})
		}
	}
	walk(nil)

	pats := []string{"none", "none", "first", "second", "all"}
	for i := 0; i < *nRand; i++ {
		out.emit(obj{"op": "reset"})
		run := newFRun()
		for j := 0; j < *randLen; j++ {
			var o fOp
			cur := int(run.st.Height())
			if rnd.Intn(4) == 0 {
				o = fOp{op: "start", h: 1 + rnd.Intn(filterHmax), pat: pats[rnd.Intn(len(pats))]}
			} else {
				h := cur + rnd.Intn(3) // mostly current and near-future heights
				if rnd.Intn(6) == 0 {
					h = rnd.Intn(filterHmax + 1)
				}
				if h > filterHmax {
					h = filterHmax
				}
				o = fOp{op: "recv", h: h, inst: "me", pat: pats[rnd.Intn(len(pats))]}
				switch rnd.Intn(10) {
				case 0:
					o.inst = "other"
				case 1:
					o.self = true
				}
			}
			out.emit(run.apply(o))
		}
	}
	fmt.Printf("lines=%d tree_nodes=%d ops=%d\n", out.n, nodes, len(ops))
	return 0
}
