------------------------------- MODULE Filter -------------------------------
(* The height filter and future cache of services/rawmessagesfilter, together with the way   *)
(* the worker uses it: starting a round installs a handler (a term) and drains the cache of  *)
(* that height ONE MESSAGE AT A TIME, and any delivery may make the term commit, which starts *)
(* the next round from INSIDE the drain (onCommit -> onNewConsensusRound -> ConsumeCache...). *)
(* Step functions over a state record; the drain is a work-stack machine run by a fold.       *)
EXTENDS Integers, Sequences, SequencesExt, FiniteSets, TLC
CONSTANTS Hmax,        \* heights 1..Hmax
          Fixed        \* TRUE: the drain re-checks that a cached message is still for the current height
Heights == 1..Hmax
MaxSteps == 48         \* bound of the drain machine (messages in the cache + frames), generous

\* message: [id, h, inst \in {"me","other"}, self \in BOOLEAN]
InitS == [cur |-> 0, handler |-> 0, cache |-> [h \in Heights |-> <<>>], latest |-> 0]
ClearBelow(c, H) == [h \in Heights |-> IF h < H THEN <<>> ELSE c[h]]

\* does the k-th delivery of this operation (k counted from 1) make the term commit?
Commits(pattern, k) == \/ pattern = "all"
                       \/ (pattern = "first" /\ k = 1)
                       \/ (pattern = "second" /\ k = 2)

\* machine state: filter state s, work stack of drain frames, deliveries so far <<id, handlerHeight>>
StartRound(ms, H) ==
  [ms EXCEPT !.s = [@ EXCEPT !.cur = H, !.handler = H, !.cache = ClearBelow(@, H)],
             !.stack = <<[h |-> H, q |-> ms.s.cache[H]]>> \o @]

Deliver(ms, m, pattern) ==
  LET d  == [ms EXCEPT !.out = Append(@, <<m.id, ms.s.handler>>)]
      k  == Len(d.out)
  IN IF Commits(pattern, k) /\ d.s.cur < Hmax THEN StartRound(d, d.s.cur + 1) ELSE d

MachineStep(ms, pattern) ==
  IF ms.stack = <<>> THEN ms
  ELSE LET fr == Head(ms.stack) IN
       IF fr.q = <<>>
       THEN [ms EXCEPT !.stack = Tail(@), !.s = [@ EXCEPT !.cache[fr.h] = <<>>]]
       ELSE LET m    == Head(fr.q)
                rest == [ms EXCEPT !.stack = <<[h |-> fr.h, q |-> Tail(fr.q)]>> \o Tail(@)]
            IN IF Fixed /\ m.h # ms.s.cur THEN rest ELSE Deliver(rest, m, pattern)

RunMachine(ms, pattern) == FoldLeft(LAMBDA acc, i : MachineStep(acc, pattern), ms, [i \in 1..MaxSteps |-> i])

\* advance to height H (node sync or first round): only forward
StartR(s, H, pattern) ==
  IF H <= s.cur THEN [st |-> s, out |-> <<>>]
  ELSE LET ms == RunMachine(StartRound([s |-> s, stack |-> <<>>, out |-> <<>>], H), pattern)
       IN [st |-> ms.s, out |-> ms.out]

\* receive one message
RecvR(s, m, pattern) ==
  IF m.self \/ m.h < s.cur \/ m.inst # "me" THEN [st |-> s, out |-> <<>>]
  ELSE IF m.h > s.cur THEN
       IF m.h < s.latest THEN [st |-> s, out |-> <<>>]
       ELSE [st  |-> [s EXCEPT !.latest = m.h,
                               !.cache = [ClearBelow(s.cache, IF m.h > s.latest THEN m.h ELSE 1) EXCEPT ![m.h] = Append(@, m)]],
             out |-> <<>>]
  ELSE IF s.handler = 0 THEN [st |-> s, out |-> <<>>]
  ELSE LET ms == RunMachine(Deliver([s |-> s, stack |-> <<>>, out |-> <<>>], m, pattern), pattern)
       IN [st |-> ms.s, out |-> ms.out]
=============================================================================
