----------------------------- MODULE MC_Leader -----------------------------
EXTENDS Leader, TLC
CONSTANTS MaxN, MaxStart
VARIABLES n, s
Init == n \in 4..MaxN /\ s = 0
Next == s < MaxStart /\ s' = s + 1 /\ n' = n
Law == RoundRobin(s, n)
=============================================================================
