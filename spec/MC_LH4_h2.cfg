CONSTANTS MaxView = 1 ByzBudget = 3 Blocks <- cBlocks Hdr <- cHdr Dev = {"StandalonePP"} Ablate = {}
INIT Init
NEXT Next
INVARIANTS Agreement
VIEW View
CHECK_DEADLOCK FALSE
