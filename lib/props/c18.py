"""C18 leader rotation: Leader.tla (v mod n, round robin) model-checked for sizes 4..64; the real
leader function tabulated through the verif accessor for sizes 4..64 x dense/boundary/random 64-bit
views, each line checked by TLC (BigNat modulo)."""
import json, os, shutil
import vlib
from props import tables

PID = "C18"


def _classify(line, tags):
    v = tables.big(line["v"] if line["op"] == "leader" else line["start"])
    sig = {"op": line["op"], "tags": tags, "view_at_least_2p63": v >= 2 ** 63}
    return sig, "leader function on committee size %d, view %d: %s (returned index %s, panic=%s)" % (
        line["n"], v, ",".join(tags), line.get("idx", line.get("idxs")), line["panic"])


def _table(rep, tier, seed, replay_in=None):
    args = ["-seed", seed, "-sizes", 12 if tier == "quick" else 64, "-rand", 2000 if tier == "quick" else 40000]
    tables.run_table(rep, PID, "leader", args, "Trace_Leader", "Trace_Leader.cfg", _classify, replay_in=replay_in,
                     distinct_key=lambda e: [e["op"], e["n"], e.get("v"), e.get("start")])


def run(tier, seed):
    rep = vlib.Report(PID, tier, seed)
    rep.assumptions = ["the leader function is observed through the verif accessor VerifLeaderOf (same unexported function the term calls)",
                       "views wrap around 2^64 in 'run' lines exactly as uint64 addition does"]
    r = vlib.tlc_must_pass("MC_Leader", "MC_Leader.cfg", timeout=600)
    if r.violated:
        raise vlib.Inconclusive("Leader.tla round-robin law fails in the spec itself: spec bug")
    rep.add_tlc(r, "Leader.tla round robin for sizes 4..64, start views 0..130")
    _table(rep, tier, seed)
    # the leader a real node computes while handling proposals of other views (named to its consumer as the proposer)
    from props import cluster
    rep.assumptions += cluster.ASSUME
    cluster.judge(rep, PID, tier, 0, args={"scenarios": True, "seed": 0}, what="directed schedules (attack library)")
    a = dict(cluster.gen_args(tier, seed))
    a["runs"] = a["runs"] // 2
    cluster.judge(rep, PID, tier, seed, args=a)
    return rep.finish()


def replay(path, seed):
    payload = json.load(open(path))
    if payload.get("kind") == "cluster-run":
        from props import cluster
        return cluster.simple_replay(PID, path, seed)
    rep = vlib.Report(PID, "quick", seed)
    rep.replay_of = path
    wd = vlib.scratch_dir("c18r")
    try:
        _table(rep, "quick", seed, replay_in=tables.replay_line(json.load(open(path)), wd))
    finally:
        shutil.rmtree(wd, ignore_errors=True)
    return rep.finish()
