--------------------------- MODULE Trace_Storage ---------------------------
(* Tree traces recorded from the real InMemoryStorage: every sequence of stores / clears up to a  *)
(* depth over a small domain, and long random sequences.  A line is one call with its result and  *)
(* the whole log read back through every getter the term uses; "pop" goes back to the parent node,  *)
(* "reset" starts a fresh log.  The stack holds the specification state (Storage.tla) per level.   *)
EXTENDS Storage, Sequences, TLC, Json, IOUtils, SequencesExt
Trace == ndJsonDeserialize(IOEnv.VERIF_TRACE)
VARIABLES l, stack
Chk(cond, tag) == cond \/ PrintT(<<"VERIF_BAD", tag, l>>)
Top == stack[Len(stack)]
H == 1..2
V == 0..1
X == {"a", "b"}

Rec4(q) == {[h |-> q[i].h, v |-> q[i].v, x |-> q[i].x, s |-> q[i].s] : i \in DOMAIN q}
Rec3(q) == {[h |-> q[i].h, v |-> q[i].v, s |-> q[i].s] : i \in DOMAIN q}
NoDup(q) == \A i, j \in DOMAIN q : i # j => q[i] # q[j]
MsgOf(e) == [h |-> e.h, v |-> e.v, x |-> e.x, s |-> e.s]

Init == l = 1 /\ stack = <<Empty>>
Next ==
  /\ l <= Len(Trace)
  /\ l' = l + 1
  /\ LET e == Trace[l] IN
     CASE e.op = "pop"   -> stack' = SubSeq(stack, 1, Len(stack) - 1)
       [] e.op = "reset" -> stack' = <<Empty>>
       [] e.op = "hang"  -> UNCHANGED stack /\ Chk(FALSE, "c12_storage_call_did_not_return")   \* no line for 30 s: a lock the log kept
       [] OTHER ->
          LET r  == IF e.op = "clear" THEN [res |-> TRUE, st |-> ClearR(Top, e.h)] ELSE StoreR(Top, e.k, MsgOf(e))
              st == r.st
              o  == e.obs
          IN /\ stack' = Append(stack, st)
             /\ Chk(~e.panic /\ ~o.panic, "c12_storage_panic")
             \* C10: the proposal stored for a view is the first one; a second one is refused and changes nothing
             /\ Chk(Rec4(o.pp) = st.pp /\ Rec4(o.pp2) = st.pp, "c10_stored_proposal_is_not_the_first_of_its_view")
             /\ Chk((e.op = "store" /\ e.k = "PP") => e.res = r.res, "c10_second_proposal_of_a_view_not_refused")
             \* C10 / C08: what is counted for (height, view, hash) is exactly what was stored for that triple, each sender once
             /\ Chk(Rec4(o.pids) = st.ps /\ NoDup(o.pids), "c10_prepare_senders_not_exact_for_height_view_hash")
             /\ Chk(Rec4(o.cids) = st.cs /\ NoDup(o.cids), "c10_commit_senders_not_exact_for_height_view_hash")
             /\ Chk(Rec3(o.vs) = st.vs /\ NoDup(o.vs), "c08_votes_not_exact_for_height_view")
             \* ---- conformance of everything else with Storage.tla (drift)
             /\ Chk(e.res = r.res, "drift_result")
             /\ Chk(Rec4(o.ps) = st.ps /\ NoDup(o.ps) /\ Rec4(o.psv) = st.ps /\ NoDup(o.psv), "drift_prepares")
             /\ Chk(Rec4(o.cs) = st.cs /\ NoDup(o.cs) /\ Rec4(o.csv) = st.cs /\ NoDup(o.csv), "drift_commits")
             /\ Chk(Rec4(o.latest) = UNION {LatestPP(st, h) : h \in H}, "drift_latest_proposal")
             /\ Chk(\A i \in DOMAIN o.all : o.all[i].n = Cardinality(PPAt(st, o.all[i].h, o.all[i].v)) + Cardinality(PrepFromView(st, o.all[i].h, o.all[i].v))
                                                      + Cardinality(ComFromView(st, o.all[i].h, o.all[i].v)) + Cardinality(Voters(st, o.all[i].h, o.all[i].v)),
                    "drift_all_messages_of_view")
=============================================================================
