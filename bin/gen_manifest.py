#!/usr/bin/env python3
"""Regenerates /verif/MANIFEST.json from the table below (one place to keep it valid)."""
import json, os, subprocess

ROOT = os.path.dirname(os.path.dirname(os.path.abspath(__file__)))
ALL = ["C%02d" % i for i in range(1, 21)]

# pid -> (category, technique, text, note, design_ref)
CHECKS = {
    "C06": ("model_checking",
            "TLC: Quorum.tla laws on every small weight vector + TLC validation of recorded calls of the real quorum functions (BigNat limbs for 64-bit totals)",
            "Design level: TLC checks the five laws (intersection > f, quorum has honest, attainable, monotone, no free weight) on "
            "every weight vector of up to 5 members with weights 0..6 and all subset pairs. Code level: every call of the real "
            "CalcQuorumWeight / CalcByzMaxWeight / IsQuorum / HasHonest made by the harness (small, boundary totals around 2^53, 2^63, "
            "2^64-1, multiples of 3, random 64-bit) is written as a trace line and TLC recomputes f, Q, the subset weight and the laws "
            "from the specification's definitions. Unit tests cannot reach this because the interesting totals are above 2^53.",
            "Trusted: BigNat.tla limb arithmetic, the harness's encoding of inputs/outputs; totals are assumed to fit 64 bits as the property says.",
            "DESIGN.md 5 C06"),
}

PENDING_REASON = "check not built yet in this round; planned per DESIGN.md section 5 (no claim is made until a sound check exists)"


def main():
    hooks_commits = []
    try:
        out = subprocess.run(["git", "-C", "/repo", "log", "--format=%h %s"], stdout=subprocess.PIPE, text=True).stdout
        hooks_commits = [l.split()[0] for l in out.splitlines() if l.split(" ", 1)[1].startswith("verif:")]
    except Exception:
        pass
    m = {
        "version": 1,
        "setup_cmd": "cd /verif && bin/setup",
        "hooks": {
            "guard": "verif",
            "enable": "go build -tags verif (the harness module /verif/harness replaces github.com/orbs-network/lean-helix-go with /repo)",
            "baseline_off_cmd": "cd /repo && GOFLAGS=-mod=mod GOPROXY=off GOSUMDB=off go test -json -vet=off -count=1 -timeout 25m ./...",
            "source_commits": hooks_commits,
            "add_only": True,
        },
        "engines": [
            {"name": "tlc", "path": "/opt/veriftools/tla/tla2tools.jar", "serves_properties": sorted(CHECKS),
             "kind_free_text": "TLC model checker: state graphs of /verif/spec/*.tla and validation of traces recorded from the real code"},
            {"name": "lhverif", "path": "/verif/harness", "serves_properties": sorted(CHECKS),
             "kind_free_text": "Go harness driving the real packages of /repo; writes ndjson traces, replays TLC behaviours"},
        ],
        "checks": [],
        "not_applicable": [],
        "notes": "All verdicts come from TLA+ formulas evaluated by TLC on state graphs of the specifications or on traces recorded from the real code; see DESIGN.md.",
    }
    for pid in ALL:
        if pid in CHECKS:
            cat, tech, text, note, ref = CHECKS[pid]
            m["checks"].append({
                "property_id": pid,
                "quick_cmd": "bin/check %s --tier quick" % pid,
                "thorough_cmd": "bin/check %s --tier thorough" % pid,
                "evidence_file": "/verif/evidence/%s.json" % pid,
                "replay_cmd_template": "bin/check %s --replay {path}" % pid,
                "engine": "tlc",
                "level_claimed": {"category": cat, "text": text, "design_ref": ref},
                "level_note": note,
                "technique": tech,
            })
        else:
            m["not_applicable"].append({"property_id": pid, "reason": PENDING_REASON})
    with open(os.path.join(ROOT, "MANIFEST.json"), "w") as f:
        json.dump(m, f, indent=1)
    print("MANIFEST.json: %d checks, %d not_applicable" % (len(m["checks"]), len(m["not_applicable"])))


if __name__ == "__main__":
    main()
