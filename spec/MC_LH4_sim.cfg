CONSTANTS MaxView = 2 ByzBudget = 6 Blocks <- cBlocks Hdr <- cHdr Dev = {}
INIT Init
NEXT Next
CONSTRAINT EmitEvent
CHECK_DEADLOCK FALSE
