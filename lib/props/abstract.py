"""LHAbstract.tla - the safety argument of one height with the messages abstracted away (C01 at the design level).

quick:    TLC, exhaustive: N = 4 unit weights, member 1 Byzantine, views 0..1, two blocks: Agreement and the lemmas (IndInv);
          the same instance with the deviation H2 switched on must yield the fork (non-vacuity: the model can express one).
thorough: TLC, exhaustive: views 0..2 for unit weights, the weighted committee (3,2,2,1; the Byzantine member holds f = 2) and
          five members; Apalache: IndInv is inductive for N = 4, views 0..2 (any number of steps).
A failure here is a matter of the specification (exit 2), never a verdict about the code."""
import vlib

QUICK = [("MC_LHAbs_v1.cfg", "N=4, unit weights, member 1 Byzantine, views 0..1, 2 blocks"),
         ("MC_LHAbs_w1.cfg", "N=4, weights 3,2,2,1, member 2 (weight f = 2) Byzantine, views 0..1")]
THOROUGH = [("MC_LHAbs_quick.cfg", "N=4, unit weights, member 1 Byzantine, views 0..2, 2 blocks"),
            ("MC_LHAbs_w.cfg", "N=4, weights 3,2,2,1, member 2 (weight f = 2) Byzantine, views 0..2"),
            ("MC_LHAbs_5.cfg", "N=5, unit weights, member 1 Byzantine, views 0..2")]


def design(rep, tier):
    for cfg, what in (QUICK if tier == "quick" else THOROUGH):
        r = vlib.tlc_must_pass("MC_LHAbs", cfg, timeout=3000)
        if r.violated:
            raise vlib.Inconclusive("LHAbstract.tla: %s is violated in %s (design level: the abstract model or its lemmas are wrong)" % (r.violated, cfg))
        rep.add_tlc(r, "LHAbstract.tla, exhaustive (%s): Agreement and the lemmas AcceptedIsSigned, PreparedHasCertificate, "
                       "VotesReportTheLock, UniqueCertificatePerView, Locked" % what)
    # non-vacuity: with the deviation of the known finding H2 the same model forks
    r = vlib.tlc("MC_LHAbs", "MC_LHAbs_h2.cfg", timeout=600)
    if r.violated != "Agreement":
        raise vlib.Inconclusive("LHAbstract.tla with Dev = {h2} does not yield the fork (%s): the abstract model lost its teeth" % (r.violated or r.error))
    rep.parts.append({"what": "LHAbstract.tla with the deviation H2 (bare PREPREPARE accepted above view 0): TLC finds the fork", "states": r.generated})
    if tier == "thorough":
        for init, inv, n, what in (("Init", "IndInv", 0, "the initial state satisfies IndInv"),
                                   ("IndInit", "IndInv", 1, "every step from ANY state satisfying IndInv preserves it"),
                                   ("IndInit", "Agreement", 0, "IndInv implies Agreement")):
            ok, out, secs = vlib.apalache("LHAbstractInd", init, inv, n, timeout=3400, heap="24G")
            if not ok:
                raise vlib.Inconclusive("Apalache: LHAbstractInd %s => %s fails (specification matter):\n%s" % (init, inv, out))
            rep.parts.append({"what": "Apalache, LHAbstractInd.tla: " + what, "seconds": round(secs, 1)})
