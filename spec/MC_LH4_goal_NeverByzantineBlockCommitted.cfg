CONSTANTS MaxView = 1 ByzBudget = 3 Blocks <- cBlocks Hdr <- cHdr Dev = {} Ablate = {}
INIT Init
NEXT Next
VIEW View
INVARIANT NeverByzantineBlockCommitted
CHECK_DEADLOCK FALSE
