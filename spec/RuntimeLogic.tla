---------------------------- MODULE RuntimeLogic ----------------------------
(* The decisions of the two loops of lean-helix-go (mainloop.go, workerloop.go) as pure functions, *)
(* shared by the design-level specification (Runtime.tla, where they are the bodies of atomic      *)
(* actions) and by the conformance specification (Trace_RuntimeConf.tla, where the real loops'     *)
(* recorded steps are compared with them).                                                         *)
EXTENDS Integers, Sequences
CONSTANTS Heights, Views
VC == INSTANCE ViewContexts

NoSlot == -1

\* main loop, node-sync case: UpdateState(block of height b) given the highest height accepted so far
\* and the registry.  "stale": an equal or newer block was accepted before, nothing is touched;
\* otherwise contexts older than (b+1, 0) are cancelled and the context of (b+1, 0) is requested:
\* "ignored" when the registry refuses it, else "done": b is written to the worker's slot (overwriting).
SyncTarget(b) == <<b + 1, 0>>
SyncDecision(maxSync, reg, b) ==
  IF maxSync >= b THEN [res |-> "stale", reg |-> reg, ops |-> <<>>]
  ELSE LET t  == SyncTarget(b)
           r1 == VC!CancelR(reg, t).st
           f  == VC!ForR(r1, t) IN
       [res |-> IF f.res = "ok" THEN "done" ELSE "ignored", reg |-> f.st,
        ops |-> << <<"cancel", t[1], t[2]>>, <<"for", t[1], t[2]>> >>]

\* main loop, election case: trigger for position t = (h, v)
ElectionTarget(t) == <<t[1], t[2] + 1>>
ElectionDecision(reg, t) ==
  LET g  == ElectionTarget(t)
      r1 == VC!CancelR(reg, g).st
      f  == VC!ForR(r1, g) IN
  [res |-> IF f.res = "ok" THEN "done" ELSE "ignored", reg |-> f.st,
   ops |-> << <<"cancel", g[1], g[2]>>, <<"for", g[1], g[2]>> >>]

\* worker loop: a synced block of height b starts a round iff it is not below the current height;
\* an election trigger is acted on iff it is for exactly the current (height, view)
WorkerSyncAccepts(b, hv) == b >= hv[1]
WorkerElectionCurrent(t, hv) == t = hv

\* main loop, top of every iteration: contexts below the current height are garbage
GcTarget(hv) == <<hv[1], 0>>
=============================================================================
