CONSTANTS MaxView = 1 ByzBudget = 2 Blocks <- cBlocks Hdr <- cHdr Dev = {} Ablate = {}
INIT Init
NEXT Next
INVARIANTS Agreement LockedNodeLevel ExternalValidity NoRejectedCommitted NoEquivocation HigherViewOnlyByCertificate
VIEW View
CHECK_DEADLOCK FALSE
