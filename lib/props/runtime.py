"""Runtime family (C13, C14, C16, runtime parts of C12 and C15): the real two-goroutine runtime of one node
(MainLoop.Run, real state / contexts / term / timer) under the randomised driver of the harness - gating SPI
calls (released by the driver or only by their context), election triggers (fake scheduler or the real
timer), UpdateState with older / equal / newer heights and bursts, garbage, cancellation at a random point -
is recorded event by event and validated by TLC against the monitor Trace_Runtime.tla, whose requirements are
those stated for Runtime.tla.  Runtime.tla itself is model checked exhaustively (safety + liveness)."""
import json, os, shutil, collections
import vlib

_cache = {}


def gen_args(tier, seed):
    if tier == "quick":
        return {"seed": seed, "runs": 60, "ops": 120}
    return {"seed": seed, "runs": 1500, "ops": 200}


def run_traces(a, only=None):
    key = (json.dumps(a, sort_keys=True), only)
    if key in _cache:
        return _cache[key]
    wd = vlib.scratch_dir("runtime")
    try:
        trace = os.path.join(wd, "runtime.ndjson")
        args = ["runtime", "-out", trace, "-seed", a["seed"], "-runs", a["runs"], "-ops", a["ops"]]
        if only is not None:
            args += ["-only", only]
        out = vlib.run_harness(args, cwd=wd, timeout=3400)
        lines = vlib.read_ndjson(trace)
        # long traces are validated in chunks cut at run boundaries ("init" re-initialises both monitors), several TLC processes at a
        # time: a thorough trace has ~6 M lines; one TLC process per module needed half an hour and died near the end
        chunks = _chunks(trace, lines, wd)
        bad = {}
        r = _validate_chunks("Trace_Runtime", "Trace_Runtime.cfg", chunks, wd, bad)
        # conformance of the same events with the loop logic of Runtime.tla (RuntimeLogic.tla + ViewContexts.tla)
        r2 = _validate_chunks("Trace_RuntimeConf", "Trace_RuntimeConf.cfg", chunks, wd, bad)
        r.conf = r2
        _cache[key] = (lines, bad, r, out)
        return _cache[key]
    finally:
        shutil.rmtree(wd, ignore_errors=True)


CHUNK = int(os.environ.get("VERIF_CHUNK", "60000"))


def _chunks(trace, lines, wd):
    """[(path, offset, nlines)]: the trace itself when short, else files of whole runs of about CHUNK lines."""
    if len(lines) <= CHUNK + CHUNK // 2:
        return [(trace, 0, len(lines))]
    starts = [i for i, e in enumerate(lines) if e["ev"] == "init"]
    cuts, last = [0], 0
    for i in starts:
        if i - last >= CHUNK:
            cuts.append(i)
            last = i
    cuts.append(len(lines))
    raw = open(trace).read().splitlines(True)
    out = []
    for k in range(len(cuts) - 1):
        path = os.path.join(wd, "chunk%03d.ndjson" % k)
        with open(path, "w") as f:
            f.writelines(raw[cuts[k]:cuts[k + 1]])
        out.append((path, cuts[k], cuts[k + 1] - cuts[k]))
    return out


def _validate_chunks(module, cfg, chunks, wd, bad):
    from concurrent.futures import ThreadPoolExecutor

    def one(c):
        path, off, n = c
        cwd = os.path.join(wd, "tlc_%s_%d" % (module, off))
        os.makedirs(cwd, exist_ok=True)
        r = vlib.tlc(module, cfg, workdir=cwd, workers=1, timeout=3000, env_extra={"VERIF_TRACE": path})
        shutil.rmtree(cwd, ignore_errors=True)
        return r
    with ThreadPoolExecutor(max_workers=4) as ex:
        results = list(ex.map(one, chunks))
    agg = results[0]
    for (path, off, n), r in zip(chunks, results):
        if r.error or r.violated:
            raise vlib.Inconclusive("%s: %s" % (module, r.error or r.violated))
        if r.distinct < n:
            raise vlib.Inconclusive("%s consumed %d of %d lines of the chunk at line %d" % (module, r.distinct, n, off))
        for t in r.bad:
            bad.setdefault(t[1] + off, []).append(t[0])
        if r is not agg:
            agg.generated += r.generated
            agg.distinct += r.distinct
            agg.depth = max(agg.depth, r.depth)
            agg.wall += r.wall
    return agg


def model_check(rep, tier):
    cfg = "MC_Runtime_quick.cfg" if tier == "quick" else "MC_Runtime_thorough.cfg"
    r = vlib.tlc_must_pass("Runtime", cfg, timeout=3400)
    if r.violated:
        raise vlib.Inconclusive("Runtime.tla violates %s at the design level: the specification misrepresents the runtime, fix the spec" % r.violated)
    rep.add_tlc(r, "Runtime.tla exhaustive, safety and liveness under weak fairness (%s)" % cfg)


def judge(rep, pid, tier, seed, only=None, args=None):
    a = args or gen_args(tier, seed)
    lines, bad, r, out = run_traces(a, only)
    rep.add_tlc(r, "Trace_Runtime over %d events of the real runtime" % len(lines))
    rep.add_tlc(r.conf, "Trace_RuntimeConf: the same events against the loop decisions of Runtime.tla / RuntimeLogic.tla and the registry of ViewContexts.tla")
    runs = [i for i, e in enumerate(lines, 1) if e["ev"] == "init"]
    rep.traces += len(runs)
    rep.evaluations += len(lines)
    kinds = collections.Counter(e["ev"] for e in lines)
    rep.extra["event_counts"] = dict(kinds)
    for e in lines:
        if e["ev"] != "sample":
            rep.distinct.add(json.dumps({k: v for k, v in e.items() if k not in ("seq", "call", "ms")}, sort_keys=True))
    for e in lines:
        if e["ev"] in ("spi.done_seen", "cb.commit", "main.sync.done") and len(rep.samples) < 5:
            rep.sample(e)
    prefix = pid.lower() + "_"
    seen = set()
    # runs in which the consumer's commit callback panics once: the worker loop is restarted in the middle of an iteration, which
    # the conformance specification (an iteration runs to its end) does not describe - those runs are judged by the monitor only
    panic_run, cur = {}, False
    for i, e in enumerate(lines, 1):
        if e["ev"] == "init":
            cur = bool(e.get("consumer_panics"))
        panic_run[i] = cur
    rep.extra["runs_with_a_panicking_commit_callback"] = sum(1 for e in lines if e["ev"] == "init" and e.get("consumer_panics"))
    for l in sorted(bad):
        e = lines[l - 1]
        if panic_run.get(l):
            bad[l] = [t for t in bad[l] if "_conf_" not in t]
        for tag in sorted(set(bad[l])):
            if tag.startswith("drift_"):
                if len(rep.drift) < 10:
                    rep.drift.append("%s: %s" % (tag, json.dumps(e)))
                continue
            if not tag.startswith(prefix):
                continue
            sig = {"tag": tag, "ev": e["ev"], "kind": e.get("kind")}
            k = vlib.known_match(pid, sig)
            if k:
                if k["id"] not in seen:
                    seen.add(k["id"])
                    rep.known.append("%s: %s" % (k["id"], k["what"]))
                continue
            key = json.dumps(sig, sort_keys=True)
            if key in seen:
                continue
            seen.add(key)
            start = max(i for i in runs if i <= l)
            run = lines[start - 1]["run"]
            path = rep.replay_of or vlib.save_replay(pid, "runtime_seed%d_run%d_line%d" % (a["seed"], run, l - start + 1),
                                                     {"property": pid, "kind": "runtime-run", "args": a, "run": run, "failed": sig, "event": e,
                                                      "note": "the real runtime is concurrent: the replay re-runs the same seeded driver, the interleaving may differ"})
            rep.violation(path, "%s at event %s" % (tag, json.dumps(e)))


ASSUME = ["events are ordered by a sequence number taken inside the critical section that logs them; fields about context state are read inside it",
          "real-time bounds (shutdown within 1 s, API calls within 0.5-2 s) are measured on this machine",
          "the three other committee members are played by the harness with real signatures",
          "goroutine leaks are detected as goroutines with a frame of the library or govnr after shutdown"]


def simple_check(pid, tier, seed, extra=None):
    rep = vlib.Report(pid, tier, seed)
    rep.assumptions = list(ASSUME)
    model_check(rep, tier)
    judge(rep, pid, tier, seed)
    if extra:
        extra(rep, tier, seed)
    return rep.finish()


def simple_replay(pid, path, seed):
    rep = vlib.Report(pid, "quick", seed)
    rep.replay_of = path
    payload = json.load(open(path))
    judge(rep, pid, "quick", payload["args"]["seed"], only=payload["run"], args=payload["args"])
    return rep.finish()


def c12(rep, tier, seed):
    judge(rep, "C12", tier, seed)


def c15(rep, tier, seed):
    model_check(rep, tier)
    judge(rep, "C15", tier, seed)


def replay(rep, payload, seed):
    judge(rep, payload["property"], "quick", payload["args"]["seed"], only=payload["run"], args=payload["args"])
