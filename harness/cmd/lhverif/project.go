package main

// The projection used everywhere: real message bytes -> the abstract message grammar of
// spec/Messages.tla, with the ground truth of every signature computed by the harness's own keyring
// (never by the code under test); real node -> the node state record of spec/LeanHelix.tla.

import (
	"os"
	"fmt"
	"sort"

	"github.com/orbs-network/lean-helix-go/services/interfaces"
	"github.com/orbs-network/lean-helix-go/services/randomseed"
	"github.com/orbs-network/lean-helix-go/spec/types/go/primitives"
	"github.com/orbs-network/lean-helix-go/spec/types/go/protocol"
)

func htName(t protocol.MessageType) string {
	switch t {
	case protocol.LEAN_HELIX_PREPREPARE:
		return "PP"
	case protocol.LEAN_HELIX_PREPARE:
		return "P"
	case protocol.LEAN_HELIX_COMMIT:
		return "C"
	case protocol.LEAN_HELIX_VIEW_CHANGE:
		return "VC"
	case protocol.LEAN_HELIX_NEW_VIEW:
		return "NV"
	}
	return "?"
}

func (cl *cluster) instAbs(i primitives.InstanceId) int {
	if i == clusterInstance {
		return 0
	}
	return 1
}

func (cl *cluster) hashName(h primitives.BlockHash) string {
	cl.bodiesMu.Lock()
	defer cl.bodiesMu.Unlock()
	if body, ok := cl.byHash[string(h)]; ok {
		return body
	}
	if len(h) == 0 {
		return "empty"
	}
	return "?"
}

func (cl *cluster) sigOK(height primitives.BlockHeight, content []byte, s *protocol.SenderSignature) bool {
	if s == nil {
		return false
	}
	return cl.ring.verify(s.MemberId(), uint64(height), content, s.Signature())
}

func (cl *cluster) vmod(h primitives.BlockHeight, v primitives.View) int {
	return int(uint64(v) % uint64(cl.nMembers))
}

// okFor: the correct nodes whose consumer-side validator accepts (block, hash) at this height
func (cl *cluster) okFor(h primitives.BlockHeight, b interfaces.Block, hash primitives.BlockHash) []string {
	out := []string{}
	for _, n := range cl.nodes {
		if n != nil && n.validAt(uint64(h), b, hash) {
			out = append(out, idName(n.idx))
		}
	}
	return out
}

// canonRef: the signed header is byte-for-byte what re-encoding its fields gives (no trailing or unknown bytes)
func canonRef(r *protocol.BlockRef) bool {
	b := &protocol.BlockRefBuilder{MessageType: r.MessageType(), InstanceId: r.InstanceId(), BlockHeight: r.BlockHeight(), View: r.View(), BlockHash: r.BlockHash()}
	return string(b.Build().Raw()) == string(r.Raw())
}

func canonVote(c *protocol.ViewChangeMessageContent) bool {
	re := interfaces.ExtractConfirmationsFromViewChangeMessages([]*interfaces.ViewChangeMessage{interfaces.NewViewChangeMessage(c, nil)})[0].Build()
	return string(re.SignedHeader().Raw()) == string(c.SignedHeader().Raw())
}

func (cl *cluster) refAbs(prefix string, r *protocol.BlockRef, into obj) {
	into[prefix+"vm"] = cl.vmod(r.BlockHeight(), r.View())
	into[prefix+"ht"] = htName(r.MessageType())
	into[prefix+"inst"] = cl.instAbs(r.InstanceId())
	into[prefix+"h"] = absNum(uint64(r.BlockHeight()))
	into[prefix+"v"] = absNum(uint64(r.View()))
	into[prefix+"x"] = cl.hashName(r.BlockHash())
}

func (cl *cluster) proofAbs(p *protocol.PreparedProof) obj {
	if p == nil || len(p.Raw()) == 0 {
		return obj{"has": false}
	}
	o := obj{"has": true}
	ppRef, pRef := p.PreprepareBlockRef(), p.PrepareBlockRef()
	cl.refAbs("pp", ppRef, o)
	cl.refAbs("p", pRef, o)
	delete(o, "pvm")
	o["pps"] = cl.nameOf(p.PreprepareSender().MemberId())
	o["ppsig"] = cl.sigOK(ppRef.BlockHeight(), ppRef.Raw(), p.PreprepareSender())
	ps := []obj{}
	it := p.PrepareSendersIterator()
	for it.HasNext() {
		s := it.NextPrepareSenders()
		ps = append(ps, obj{"s": cl.nameOf(s.MemberId()), "sig": cl.sigOK(pRef.BlockHeight(), pRef.Raw(), s)})
	}
	o["ps"] = ps
	return o
}

func (cl *cluster) voteAbs(c *protocol.ViewChangeMessageContent) obj {
	hd := c.SignedHeader()
	return obj{"ht": htName(hd.MessageType()), "inst": cl.instAbs(hd.InstanceId()), "h": absNum(uint64(hd.BlockHeight())),
		"v": absNum(uint64(hd.View())), "vm": cl.vmod(hd.BlockHeight(), hd.View()), "s": cl.nameOf(c.Sender().MemberId()),
		"sig": cl.sigOK(hd.BlockHeight(), hd.Raw(), c.Sender()), "proof": cl.proofAbs(hd.PreparedProof()), "canon": canonVote(c)}
}

func (cl *cluster) blockFits(b interfaces.Block, height primitives.BlockHeight, hash primitives.BlockHash) bool {
	vb, ok := b.(*vBlock)
	return ok && vb != nil && vb.height == uint64(height) && string(hashOfBody(vb.body)) == string(hash)
}

// msgAbs never panics: unparseable content is reported as kind BAD.
func (cl *cluster) msgAbs(raw *interfaces.ConsensusRawMessage) (out obj) {
	defer func() {
		if r := recover(); r != nil {
			out = obj{"k": "BAD"}
		}
	}()
	if raw == nil {
		return obj{"k": "BAD"}
	}
	rd := protocol.LeanhelixContentReader(raw.Content)
	blk := blockName(raw.Block)
	switch {
	case rd.IsMessagePreprepareMessage():
		c := rd.PreprepareMessage()
		o := obj{"k": "PP", "s": cl.nameOf(c.Sender().MemberId()), "sig": cl.sigOK(c.SignedHeader().BlockHeight(), c.SignedHeader().Raw(), c.Sender()),
			"blk": blk, "bok": cl.blockFits(raw.Block, c.SignedHeader().BlockHeight(), c.SignedHeader().BlockHash()),
			"okfor": cl.okFor(c.SignedHeader().BlockHeight(), raw.Block, c.SignedHeader().BlockHash()), "canon": canonRef(c.SignedHeader())}
		cl.refAbs("", c.SignedHeader(), o)
		return o
	case rd.IsMessagePrepareMessage():
		c := rd.PrepareMessage()
		o := obj{"k": "P", "s": cl.nameOf(c.Sender().MemberId()), "sig": cl.sigOK(c.SignedHeader().BlockHeight(), c.SignedHeader().Raw(), c.Sender()), "canon": canonRef(c.SignedHeader())}
		cl.refAbs("", c.SignedHeader(), o)
		return o
	case rd.IsMessageCommitMessage():
		c := rd.CommitMessage()
		o := obj{"k": "C", "s": cl.nameOf(c.Sender().MemberId()), "sig": cl.sigOK(c.SignedHeader().BlockHeight(), c.SignedHeader().Raw(), c.Sender()),
			"share": cl.shareOK(uint64(c.SignedHeader().BlockHeight()), c.Sender().MemberId(), c.Share()), "canon": canonRef(c.SignedHeader())}
		cl.refAbs("", c.SignedHeader(), o)
		return o
	case rd.IsMessageViewChangeMessage():
		c := rd.ViewChangeMessage()
		o := cl.voteAbs(c)
		o["k"] = "VC"
		o["blk"] = blk
		pr := c.SignedHeader().PreparedProof()
		o["bok"] = pr != nil && len(pr.Raw()) > 0 && cl.blockFits(raw.Block, c.SignedHeader().BlockHeight(), pr.PreprepareBlockRef().BlockHash())
		return o
	case rd.IsMessageNewViewMessage():
		c := rd.NewViewMessage()
		hd := c.SignedHeader()
		o := obj{"k": "NV", "ht": htName(hd.MessageType()), "inst": cl.instAbs(hd.InstanceId()), "h": absNum(uint64(hd.BlockHeight())),
			"v": absNum(uint64(hd.View())), "vm": cl.vmod(hd.BlockHeight(), hd.View()), "s": cl.nameOf(c.Sender().MemberId()), "sig": cl.sigOK(hd.BlockHeight(), hd.Raw(), c.Sender()), "blk": blk}
		votes := []obj{}
		it := hd.ViewChangeConfirmationsIterator()
		for guard := 0; it.HasNext(); guard++ {
			if guard > 4096 { // an iterator that does not advance (malformed array): not a message
				if os.Getenv("VERIF_DUMP_LOOP") != "" {
					fmt.Fprintf(os.Stderr, "ITERATOR LOOP in NEW_VIEW votes: %x\n", raw.Content)
				}
				return obj{"k": "BAD"}
			}
			votes = append(votes, cl.voteAbs(it.NextViewChangeConfirmations()))
		}
		o["votes"] = votes
		pp := c.Message()
		ppo := obj{"s": cl.nameOf(pp.Sender().MemberId()), "sig": cl.sigOK(pp.SignedHeader().BlockHeight(), pp.SignedHeader().Raw(), pp.Sender()), "canon": canonRef(pp.SignedHeader())}
		cl.refAbs("", pp.SignedHeader(), ppo)
		o["pp"] = ppo
		o["bok"] = cl.blockFits(raw.Block, pp.SignedHeader().BlockHeight(), pp.SignedHeader().BlockHash())
		o["okfor"] = cl.okFor(pp.SignedHeader().BlockHeight(), raw.Block, pp.SignedHeader().BlockHash())
		canon := canonRef(pp.SignedHeader())
		it2 := hd.ViewChangeConfirmationsIterator()
		for guard := 0; it2.HasNext() && guard <= 4096; guard++ {
			c := canonVote(it2.NextViewChangeConfirmations()) // always advance (first version: "canon && canonVote(next)" stopped advancing once canon was false)
			canon = canon && c
		}
		o["canon"] = canon
		return o
	}
	return obj{"k": "BAD"}
}

func (cl *cluster) seedBytes(height uint64) [][]byte {
	cl.ring.mu.Lock()
	defer cl.ring.mu.Unlock()
	return cl.ring.seedContents[height]
}

func (cl *cluster) shareOK(height uint64, id primitives.MemberId, share []byte) bool {
	for _, c := range cl.seedBytes(height) {
		if cl.ring.verifyShare(id, height, c, share) {
			return true
		}
	}
	// nobody signed a seed at this height yet: compare against the seed every correct node will use
	if exp, ok := cl.expectedSeed(height); ok {
		return cl.ring.verifyShare(id, height, exp, share)
	}
	return false
}

// expectedSeed: the random seed content of a height follows from the previous height's proof.
func (cl *cluster) expectedSeed(height uint64) ([]byte, bool) {
	if height == 1 {
		return randomseed.RandomSeedToBytes(randomseed.CalculateRandomSeed(protocol.BlockProofReader(nil).RandomSeedSignature())), true
	}
	for _, n := range cl.nodes {
		if n == nil {
			continue
		}
		for _, c := range n.allCommits {
			if c.block != nil && c.block.height == height-1 {
				return randomseed.RandomSeedToBytes(randomseed.CalculateRandomSeed(protocol.BlockProofReader(c.proof).RandomSeedSignature())), true
			}
		}
	}
	return nil, false
}

// ---------------------------------------------------------------- node state

type storedKey struct {
	kind string
	v    int
	x    string
	s    string
}

func (n *cnode) storeAbs(r storeRec) obj {
	cl := n.cl
	o := obj{"kind": r.kind, "ok": r.ok, "at": absNum(r.at)}
	switch m := r.msg.(type) {
	case *interfaces.PreprepareMessage:
		o["h"], o["v"], o["x"], o["s"], o["blk"] = absNum(uint64(m.BlockHeight())), absNum(uint64(m.View())), cl.hashName(m.Content().SignedHeader().BlockHash()), cl.nameOf(m.SenderMemberId()), blockName(m.Block())
	case *interfaces.PrepareMessage:
		o["h"], o["v"], o["x"], o["s"] = absNum(uint64(m.BlockHeight())), absNum(uint64(m.View())), cl.hashName(m.Content().SignedHeader().BlockHash()), cl.nameOf(m.SenderMemberId())
	case *interfaces.CommitMessage:
		o["h"], o["v"], o["x"], o["s"] = absNum(uint64(m.BlockHeight())), absNum(uint64(m.View())), cl.hashName(m.Content().SignedHeader().BlockHash()), cl.nameOf(m.SenderMemberId())
	case *interfaces.ViewChangeMessage:
		o["h"], o["v"], o["s"], o["blk"] = absNum(uint64(m.BlockHeight())), absNum(uint64(m.View())), cl.nameOf(m.SenderMemberId()), blockName(m.Block())
		pr := m.Content().SignedHeader().PreparedProof()
		if pr != nil && len(pr.Raw()) > 0 {
			o["pv"], o["px"] = absNum(uint64(pr.PreprepareBlockRef().View())), cl.hashName(pr.PreprepareBlockRef().BlockHash())
		} else {
			o["pv"], o["px"] = -1, "-"
		}
	}
	return o
}

// nodeState: what the specification keeps per node (see LeanHelix.tla).  Stored messages are read
// back from the real storage through its SPI for the views that have ever been touched.
func (n *cnode) nodeState() obj {
	cl := n.cl
	h := n.st.Height()
	o := obj{"h": absNum(uint64(h)), "view": absNum(uint64(n.st.View())), "prepared": -1, "committed": false, "lastnv": 0, "member": false}
	if n.wedged { // its term and storage may be locked for good
		o["wedged"] = true
		return o
	}
	term := n.worker.VerifTerm()
	if term != nil && term.VerifTermInCommittee() != nil {
		s := term.VerifTermInCommittee().VerifSnapshot()
		o["member"] = true
		if s.Prepared {
			o["prepared"] = absNum(uint64(s.PreparedView))
		}
		o["committed"] = s.Committed
		o["lastnv"] = absNum(uint64(s.LastNV))
	}
	pp, ps, cs, vs := []obj{}, []obj{}, []obj{}, []obj{}
	for _, v := range n.touchedViews(uint64(h)) {
		view := primitives.View(v)
		if m, ok := n.store.InMemoryStorage.GetPreprepareMessage(h, view); ok {
			pp = append(pp, obj{"v": absNum(v), "x": cl.hashName(m.Content().SignedHeader().BlockHash()), "s": cl.nameOf(m.SenderMemberId()), "blk": blockName(m.Block())})
		}
		if ms, ok := n.store.InMemoryStorage.GetPrepareMessagesFromView(h, view); ok {
			for _, m := range ms {
				ps = append(ps, obj{"v": absNum(v), "x": cl.hashName(m.Content().SignedHeader().BlockHash()), "s": cl.nameOf(m.SenderMemberId())})
			}
		}
		if ms, ok := n.store.InMemoryStorage.GetCommitMessagesFromView(h, view); ok {
			for _, m := range ms {
				cs = append(cs, obj{"v": absNum(v), "x": cl.hashName(m.Content().SignedHeader().BlockHash()), "s": cl.nameOf(m.SenderMemberId())})
			}
		}
		if ms, ok := n.store.InMemoryStorage.GetViewChangeMessages(h, view); ok {
			for _, m := range ms {
				e := obj{"v": absNum(v), "s": cl.nameOf(m.SenderMemberId()), "blk": blockName(m.Block()), "pv": -1, "px": "-"}
				pr := m.Content().SignedHeader().PreparedProof()
				if pr != nil && len(pr.Raw()) > 0 {
					e["pv"], e["px"] = absNum(uint64(pr.PreprepareBlockRef().View())), cl.hashName(pr.PreprepareBlockRef().BlockHash())
				}
				vs = append(vs, e)
			}
		}
	}
	sortObjs(pp)
	sortObjs(ps)
	sortObjs(cs)
	sortObjs(vs)
	o["pp"], o["ps"], o["cs"], o["vs"] = pp, ps, cs, vs
	return o
}

func sortObjs(l []obj) {
	sort.Slice(l, func(i, j int) bool { return fmt.Sprint(l[i]) < fmt.Sprint(l[j]) })
}
