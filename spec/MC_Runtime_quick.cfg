CONSTANTS MaxH = 2 MaxV = 1 MaxSyncs = 2
SPECIFICATION Spec
INVARIANTS CommitOnce RoundsForward NoStaleLive SpiReleased TimerStopped
PROPERTIES HVForward RoundsAfterCommit NoProposalUnderCancelledCtx NothingAfterShutdown ShutdownCompletes SyncTakesEffect
CHECK_DEADLOCK FALSE
