CONSTANTS MaxView = 1 ByzBudget = 3 Blocks <- cBlocks Hdr <- cHdr Dev = {}
INIT Init
NEXT Next
VIEW View
INVARIANT NeverLockedNewView
CHECK_DEADLOCK FALSE
