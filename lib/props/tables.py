"""P4 helper: a harness subcommand writes one ndjson line per call of a real function; a Trace_*.tla
spec recomputes the expected answer from the specification and prints <<"VERIF_BAD", tag, l>> for
every line/tag where the real answer differs.  All bad lines are collected (not just the first), so a
known finding never hides a different violation of the same property."""
import json, os, shutil
import vlib


def validate(rep, trace_path, module, cfg, workdir, timeout=900, workers=1, env_extra=None):
    lines = vlib.read_ndjson(trace_path)
    env = {"VERIF_TRACE": trace_path}
    env.update(env_extra or {})
    r = vlib.tlc(module, cfg, workdir=workdir, workers=workers, timeout=timeout, env_extra=env)
    if r.error:
        raise vlib.Inconclusive("%s: %s" % (module, r.error))
    if r.violated:
        raise vlib.Inconclusive("%s: TLC stopped on %s (trace specs report through VERIF_BAD)" % (module, r.violated))
    if r.distinct < len(lines):
        raise vlib.Inconclusive("%s consumed %d of %d lines" % (module, r.distinct, len(lines)))
    rep.add_tlc(r, "trace validation %s (%d lines from the real code)" % (module, len(lines)))
    rep.traces += len(lines)
    rep.evaluations += len(lines)
    bad = {}
    for t in r.bad:
        tag, l = t[0], t[1]
        bad.setdefault(l, []).append(tag)
    return lines, bad
