package main

// C03 / C08 (content of the random-seed shares): services/randomseed as pure functions.  The bytes RandomSeedToBytes returns
// are what COMMIT shares sign and what every verifier is handed; they must be the decimal seed and must stay what they
// were after the function has been called again - on the same goroutine and on others (a result that lives in a reused
// buffer changes under the feet of a key manager that is still reading it).

import (
	"bytes"
	"flag"
	"fmt"
	"runtime"
	"strconv"
	"sync"

	"github.com/orbs-network/lean-helix-go/services/randomseed"
)

func init() { register("seedfmt", cmdSeedFmt) }

func cmdSeedFmt(args []string) int {
	fs := flag.NewFlagSet("seedfmt", flag.ExitOnError)
	outPath := fs.String("out", "seedfmt.ndjson", "")
	seed := fs.Int64("seed", 1, "")
	nRand := fs.Int("rand", 500, "")
	fs.Parse(args)
	rnd := newRand(*seed)
	out := newNdjson(*outPath)
	defer out.close()
	out.watchdog(60*1e9, func() obj { return obj{"op": "hang"} })
	seeds := []uint64{0, 1, 9, 10, 99, 100, 1<<32 - 1, 1 << 32, 1<<53 + 1, 1<<63 - 1, 1 << 63, ^uint64(0) - 1, ^uint64(0)}
	for i := 0; i < *nRand; i++ {
		seeds = append(seeds, rnd.Uint64()>>uint(rnd.Intn(64)))
	}
	for i, s1 := range seeds {
		s2 := seeds[(i*7+3)%len(seeds)]
		line := obj{"op": "fmt", "seed": strconv.FormatUint(s1, 10), "panic": false}
		func() {
			defer func() {
				if r := recover(); r != nil {
					line["panic"] = true
					line["out"], line["stable"], line["conc_stable"], line["sig_untouched"], line["calc_same"] = "", false, false, false, false
				}
			}()
			b1 := randomseed.RandomSeedToBytes(s1)
			c1 := append([]byte{}, b1...)
			randomseed.RandomSeedToBytes(s2)
			randomseed.RandomSeedToBytes(s2 + 1)
			line["out"] = string(c1)
			line["stable"] = bytes.Equal(b1, c1)
			// other goroutines format other seeds while this result is held
			var wg sync.WaitGroup
			held := randomseed.RandomSeedToBytes(s1)
			heldCopy := append([]byte{}, held...)
			for g := 0; g < 4; g++ {
				wg.Add(1)
				go func(g int) {
					defer wg.Done()
					for k := 0; k < 50; k++ {
						randomseed.RandomSeedToBytes(s2 + uint64(g*1000+k))
						runtime.Gosched()
					}
				}(g)
			}
			for k := 0; k < 20; k++ {
				runtime.Gosched()
			}
			wg.Wait()
			line["conc_stable"] = bytes.Equal(held, heldCopy)
			// the seed of a signature: a function of the bytes, which it does not touch
			sig := []byte(fmt.Sprintf("signature-%d", s1))
			sigCopy := append([]byte{}, sig...)
			a, b := randomseed.CalculateRandomSeed(sig), randomseed.CalculateRandomSeed(sigCopy)
			line["sig_untouched"] = bytes.Equal(sig, sigCopy)
			line["calc_same"] = a == b
		}()
		out.emit(line)
	}
	fmt.Printf("lines=%d\n", out.n)
	return 0
}
