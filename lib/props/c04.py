"""C04: see props/cluster.py (one recorded trace family, this property's own formulas in Trace_Cluster.tla); plus the real
two-goroutine runtime, where a validation can be interrupted by an election or a sync while it runs (props/runtime.py)."""
import json
from props import cluster, runtime

PID = "C04"


def _runtime(rep, tier, seed):
    rep.assumptions += runtime.ASSUME
    runtime.judge(rep, PID, tier, seed)


def run(tier, seed):
    return cluster.simple_check(PID, tier, seed, extra=_runtime)


def replay(path, seed):
    if json.load(open(path)).get("kind") == "runtime-run":
        return runtime.simple_replay(PID, path, seed)
    return cluster.simple_replay(PID, path, seed)
