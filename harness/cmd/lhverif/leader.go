package main

import (
	"flag"
	"fmt"
	"time"

	"github.com/orbs-network/lean-helix-go/services/electiontrigger"
	"github.com/orbs-network/lean-helix-go/services/interfaces"
	"github.com/orbs-network/lean-helix-go/services/termincommittee"
	"github.com/orbs-network/lean-helix-go/spec/types/go/primitives"
)

func init() {
	register("leader", cmdLeader)
	register("timeout", cmdTimeout)
}

// leaderIndex calls the real leader function; idx = position of the returned id, panic recorded.
func leaderIndex(v uint64, com []interfaces.CommitteeMember) (idx int, panicked bool) {
	defer func() {
		if r := recover(); r != nil {
			idx, panicked = -1, true
		}
	}()
	id := termincommittee.VerifLeaderOf(primitives.View(v), com)
	for i, m := range com {
		if m.Id.Equal(id) {
			return i, false
		}
	}
	return -1, false
}

// leaderSites: the two places a term consults - the leader it computes (VIEW_CHANGE destination, proof validation)
// and the predicate applied to the sender of a received PREPREPARE / PREPARE / NEW_VIEW (members recognised as leader).
func leaderSites(v uint64, com []interfaces.CommitteeMember) (tidx int, pred []int, panicked bool) {
	defer func() {
		if r := recover(); r != nil {
			tidx, pred, panicked = -1, []int{}, true
		}
	}()
	tidx, pred = -1, []int{}
	id := termincommittee.VerifLeaderOfTerm(primitives.View(v), com)
	for i, m := range com {
		if m.Id.Equal(id) {
			tidx = i
		}
		if termincommittee.VerifIsLeader(m.Id, primitives.View(v), com) {
			pred = append(pred, i)
		}
	}
	return
}

func viewClasses(n uint64) []uint64 {
	var vs []uint64
	for v := uint64(0); v <= 4*n; v++ {
		vs = append(vs, v)
	}
	for k := uint(3); k < 64; k++ {
		vs = append(vs, 1<<k-1, 1<<k, 1<<k+1)
	}
	for _, c := range []uint64{1 << 31, 1 << 32, 1 << 63} {
		for d := uint64(0); d <= 2*n+2; d++ {
			vs = append(vs, c-d, c+d)
		}
	}
	for d := uint64(0); d <= 2*n+2; d++ {
		vs = append(vs, ^uint64(0)-d)
	}
	return vs
}

func cmdLeader(args []string) int {
	fs := flag.NewFlagSet("leader", flag.ExitOnError)
	outPath := fs.String("out", "leader.ndjson", "")
	seed := fs.Int64("seed", 1, "")
	sizes := fs.Int("sizes", 12, "number of committee sizes from 4..64 (64 = all)")
	nRand := fs.Int("rand", 2000, "random 64-bit views")
	replay := fs.String("replay", "", "")
	fs.Parse(args)
	r := newRand(*seed)
	out := newNdjson(*outPath)
	defer out.close()
	one := func(n int, v uint64) {
		com := committeeOf(make([]uint64, n))
		idx, p := leaderIndex(v, com)
		tidx, pred, p2 := leaderSites(v, com)
		out.emit(obj{"op": "leader", "n": n, "v": limbs(v), "idx": idx, "tidx": tidx, "pred": pred, "panic": p || p2})
	}
	run := func(n int, start uint64) {
		com := committeeOf(make([]uint64, n))
		idxs := []int{}
		pn := false
		for k := 0; k < n; k++ {
			i, p := leaderIndex(start+uint64(k), com) // wraps around 2^64 like the view counter would
			pn = pn || p
			idxs = append(idxs, i)
		}
		out.emit(obj{"op": "run", "n": n, "start": limbs(start), "idxs": idxs, "panic": pn})
	}
	if *replay != "" {
		for _, e := range readNdjson(*replay) {
			if e["op"] == "leader" {
				one(int(e["n"].(float64)), unlimbs(e["v"]))
			} else {
				run(int(e["n"].(float64)), unlimbs(e["start"]))
			}
		}
		fmt.Printf("lines=%d\n", out.n)
		return 0
	}
	var ns []int
	if *sizes >= 61 {
		for n := 4; n <= 64; n++ {
			ns = append(ns, n)
		}
	} else {
		ns = []int{4, 5, 7, 64}
		for len(ns) < *sizes {
			ns = append(ns, 4+r.Intn(61))
		}
	}
	for _, n := range ns {
		for _, v := range viewClasses(uint64(n)) {
			one(n, v)
		}
		for _, s := range []uint64{0, 1, uint64(n) - 1, 1<<31 - 3, 1<<32 - 2, 1<<63 - uint64(n) - 1, 1<<63 - 2, 1 << 63, 1<<63 + 5, ^uint64(0) - 2*uint64(n), ^uint64(0) - uint64(n) + 1} {
			run(n, s)
		}
		for i := 0; i < *nRand/len(ns)+1; i++ {
			v := r.Uint64()
			one(n, v)
			if i%8 == 0 {
				run(n, v)
			}
		}
	}
	fmt.Printf("lines=%d\n", out.n)
	return 0
}

func cmdTimeout(args []string) int {
	fs := flag.NewFlagSet("timeout", flag.ExitOnError)
	outPath := fs.String("out", "timeout.ndjson", "")
	seed := fs.Int64("seed", 1, "")
	nRand := fs.Int("rand", 500, "")
	replay := fs.String("replay", "", "")
	fs.Parse(args)
	r := newRand(*seed)
	out := newNdjson(*outPath)
	defer out.close()
	abs := func(d time.Duration) (uint64, bool) {
		if d < 0 {
			return uint64(-(d + 1)) + 1, true
		}
		return uint64(d), false
	}
	one := func(base time.Duration, v, lo uint64) {
		et := Electiontrigger.NewTimerBasedElectionTrigger(base, nil)
		t, neg := abs(et.CalcTimeout(primitives.View(v)))
		tlo, lneg := abs(et.CalcTimeout(primitives.View(lo)))
		vs := -1
		if v < 1<<20 {
			vs = int(v)
		}
		out.emit(obj{"base": limbs(uint64(base)), "v": limbs(v), "vsmall": vs, "lo": limbs(lo), "t": limbs(t), "neg": neg, "tlo": limbs(tlo), "tlo_neg": lneg})
	}
	if *replay != "" {
		for _, e := range readNdjson(*replay) {
			one(time.Duration(unlimbs(e["base"])), unlimbs(e["v"]), unlimbs(e["lo"]))
		}
		fmt.Printf("lines=%d\n", out.n)
		return 0
	}
	bases := []time.Duration{1, 3, time.Millisecond, 100 * time.Millisecond, 4 * time.Second, time.Hour, 1<<62 + 1, 1<<63 - 1}
	for _, b := range bases {
		for v := uint64(0); v <= 200; v++ {
			lo := uint64(0)
			if v > 0 {
				lo = v - 1
			}
			one(b, v, lo)
			if v > 1 {
				one(b, v, uint64(r.Intn(int(v))))
			}
		}
		for _, v := range []uint64{255, 256, 1023, 1024, 1025, 1<<31 - 1, 1 << 31, 1 << 32, 1<<32 + 1, 1<<53 + 1, 1<<63 - 1, 1 << 63, 1<<63 + 1, ^uint64(0) - 1, ^uint64(0)} {
			one(b, v, v-1)
			one(b, v, uint64(r.Intn(64)))
		}
	}
	for i := 0; i < *nRand; i++ {
		b := time.Duration(1 + r.Int63n(int64(10*time.Second)))
		v := uint64(r.Intn(100))
		if r.Intn(4) == 0 {
			v = r.Uint64()
		}
		lo := uint64(0)
		if v > 0 {
			lo = uint64(r.Int63n(int64(v&(1<<62-1)) + 1))
			if lo >= v {
				lo = v - 1
			}
		}
		one(b, v, lo)
	}
	fmt.Printf("lines=%d\n", out.n)
	return 0
}
