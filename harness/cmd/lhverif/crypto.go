package main

// A key manager with real secrets: HMAC-SHA256 under one secret per identity, all secrets held by
// the harness (the keyring).  Unlike the repository's mock ("SIG|h|id|content", computable by
// anybody) a signature cannot be produced without the signer's secret, so "unsigned", "forged" and
// "replayed" parts are distinguishable from valid ones, and the harness can compute the ground
// truth of every verification independently of the code under test.

import (
	"bytes"
	"context"
	"crypto/hmac"
	"crypto/sha256"
	"encoding/binary"
	"errors"
	"sort"
	"sync"

	"github.com/orbs-network/lean-helix-go/spec/types/go/primitives"
	"github.com/orbs-network/lean-helix-go/spec/types/go/protocol"
)

type keyring struct {
	mu      sync.Mutex
	secrets map[string][]byte // member id -> secret
	master  []byte
	// random-seed contents signed per height (AggregateRandomSeed is not given the content)
	seedContents map[uint64][][]byte
}

func newKeyring(ids []primitives.MemberId) *keyring {
	k := &keyring{secrets: map[string][]byte{}, master: []byte("master-secret"), seedContents: map[uint64][][]byte{}}
	for _, id := range ids {
		h := sha256.Sum256(append([]byte("secret-of-"), id...))
		k.secrets[string(id)] = h[:]
	}
	return k
}

func mac(secret []byte, tag byte, height uint64, content []byte) []byte {
	m := hmac.New(sha256.New, secret)
	var hb [9]byte
	hb[0] = tag
	binary.BigEndian.PutUint64(hb[1:], height)
	m.Write(hb[:])
	m.Write(content)
	return m.Sum(nil)
}

func (k *keyring) sign(id primitives.MemberId, height uint64, content []byte) []byte {
	s, ok := k.secrets[string(id)]
	if !ok {
		return []byte("no-such-key")
	}
	return mac(s, 'C', height, content)
}

func (k *keyring) verify(id primitives.MemberId, height uint64, content []byte, sig []byte) bool {
	s, ok := k.secrets[string(id)]
	if !ok {
		return false
	}
	return hmac.Equal(mac(s, 'C', height, content), sig)
}

func (k *keyring) share(id primitives.MemberId, height uint64, content []byte) []byte {
	s, ok := k.secrets[string(id)]
	if !ok {
		return []byte("no-such-key")
	}
	k.mu.Lock()
	found := false
	for _, c := range k.seedContents[height] {
		if bytes.Equal(c, content) {
			found = true
		}
	}
	if !found {
		k.seedContents[height] = append(k.seedContents[height], append([]byte{}, content...))
	}
	k.mu.Unlock()
	return mac(s, 'R', height, content)
}

func (k *keyring) verifyShare(id primitives.MemberId, height uint64, content []byte, sig []byte) bool {
	s, ok := k.secrets[string(id)]
	if !ok {
		return false
	}
	return hmac.Equal(mac(s, 'R', height, content), sig)
}

func (k *keyring) aggregateSig(height uint64, content []byte) []byte {
	return append([]byte("AGG:"), mac(k.master, 'A', height, content)...)
}

// aggregate yields a signature that verifies as the master signature over content only if it was
// built from at least one share and every share given is a valid share, by pairwise distinct known
// identities, over that one content.
func (k *keyring) aggregate(height uint64, shares []*protocol.SenderSignature) []byte {
	k.mu.Lock()
	contents := k.seedContents[height]
	k.mu.Unlock()
	for _, c := range contents {
		ok := len(shares) > 0
		seen := map[string]bool{}
		for _, sh := range shares {
			id := string(sh.MemberId())
			if seen[id] || !k.verifyShare(sh.MemberId(), height, c, sh.Signature()) {
				ok = false
				break
			}
			seen[id] = true
		}
		if ok {
			return k.aggregateSig(height, c)
		}
	}
	ids := []string{}
	for _, sh := range shares {
		ids = append(ids, string(sh.MemberId()))
	}
	sort.Strings(ids)
	h := sha256.Sum256([]byte("bad-aggregate"))
	return append([]byte("AGG!"), h[:8]...)
}

// nodeKeyManager is the KeyManager SPI handed to one node: it signs as that node only.
type nodeKeyManager struct {
	ring *keyring
	me   primitives.MemberId
}

func (km *nodeKeyManager) SignConsensusMessage(ctx context.Context, blockHeight primitives.BlockHeight, content []byte) primitives.Signature {
	return km.ring.sign(km.me, uint64(blockHeight), content)
}

func (km *nodeKeyManager) VerifyConsensusMessage(blockHeight primitives.BlockHeight, content []byte, sender *protocol.SenderSignature) error {
	if sender == nil || !km.ring.verify(sender.MemberId(), uint64(blockHeight), content, sender.Signature()) {
		return errors.New("signature does not verify")
	}
	return nil
}

func (km *nodeKeyManager) SignRandomSeed(ctx context.Context, blockHeight primitives.BlockHeight, content []byte) primitives.RandomSeedSignature {
	return km.ring.share(km.me, uint64(blockHeight), content)
}

func (km *nodeKeyManager) VerifyRandomSeed(blockHeight primitives.BlockHeight, content []byte, sender *protocol.SenderSignature) error {
	if sender == nil {
		return errors.New("nil sender")
	}
	if len(sender.MemberId()) == 0 { // master signature
		if !bytes.Equal(sender.Signature(), km.ring.aggregateSig(uint64(blockHeight), content)) {
			return errors.New("aggregated random seed signature does not verify")
		}
		return nil
	}
	if !km.ring.verifyShare(sender.MemberId(), uint64(blockHeight), content, sender.Signature()) {
		return errors.New("random seed share does not verify")
	}
	return nil
}

func (km *nodeKeyManager) AggregateRandomSeed(blockHeight primitives.BlockHeight, randomSeedShares []*protocol.SenderSignature) primitives.RandomSeedSignature {
	return km.ring.aggregate(uint64(blockHeight), randomSeedShares)
}
