package main

// N real nodes (real WorkerLoop, filter, term, storage, factory, validators) driven step by step by
// one scheduler goroutine.  All SPIs are harness fakes that double as observation points.

import (
	"context"
	"crypto/sha256"
	"encoding/json"
	"errors"
	"fmt"
	"sort"
	"strings"
	"sync"
	"time"

	leanhelix "github.com/orbs-network/lean-helix-go"
	"github.com/orbs-network/lean-helix-go/services/interfaces"
	L "github.com/orbs-network/lean-helix-go/services/logger"
	"github.com/orbs-network/lean-helix-go/services/storage"
	"github.com/orbs-network/lean-helix-go/spec/types/go/primitives"
	"github.com/orbs-network/lean-helix-go/state"
)

const clusterInstance = primitives.InstanceId(7)

// ---------------------------------------------------------------- blocks

type vBlock struct {
	height uint64
	body   string
}

func (b *vBlock) Height() primitives.BlockHeight { return primitives.BlockHeight(b.height) }
func (b *vBlock) ReferenceTime() primitives.TimestampSeconds {
	return primitives.TimestampSeconds(1000 + b.height)
}
func (b *vBlock) String() string { return b.body }

func hashOfBody(body string) primitives.BlockHash {
	h := sha256.Sum256([]byte("block:" + body))
	return primitives.BlockHash(h[:])
}

func blockName(b interfaces.Block) string {
	if b == nil {
		return "-"
	}
	if vb, ok := b.(*vBlock); ok {
		return vb.body
	}
	return "?"
}

// ---------------------------------------------------------------- SPI fakes

type sendRec struct {
	to     []primitives.MemberId
	raw    *interfaces.ConsensusRawMessage
	failed bool // the transport returned an error: nothing was delivered
}

type storeRec struct {
	kind string // PP P C VC
	ok   bool
	msg  interfaces.ConsensusMessage
	at   uint64 // height of the node (= of the term doing the store) at that moment
}

type validationRec struct {
	height uint64
	body   string
	ok     bool
	by     string // the proposer the library names to the consumer (must be the leader of the proposal's view)
}

// inputRec: one input of a node (a delivered message, a node sync, a fired election)
type inputRec struct {
	kind  string
	raw   *interfaces.ConsensusRawMessage
	prev  *vBlock
	proof []byte
}

type commitRec struct {
	block *vBlock
	proof []byte
}

type cnode struct {
	wedged  bool // the worker did not come back from an input (see step)
	cl      *cluster
	idx     int
	id      primitives.MemberId
	worker  *leanhelix.WorkerLoop
	st      *state.State
	store   *recStorage
	idle    chan struct{}
	resume  chan struct{}
	cancel  context.CancelFunc
	started bool

	// election scheduler fake
	regH, regV uint64
	regCb      func(blockHeight primitives.BlockHeight, view primitives.View, onElectionCB interfaces.OnElectionCallback)
	elecCh     chan *interfaces.ElectionTrigger

	// per-step observations (reset before each step)
	sends       []sendRec
	stores      []storeRec
	validations []validationRec
	commits     []commitRec
	rounds      []obj
	proposals   int
	proposed    []string
	proposedBy  []string
	panicked    string
	failNext    string // kind of the next message whose send fails (set by a directed schedule)
	regSeq      int    // number of RegisterOnElection calls so far (one-shot timers: a firing spends the arming it belongs to)
	isReplica   bool
	inputs      []inputRec // every input the node was given, in order: a copy of the node is obtained by replaying them

	// history
	views       map[uint64]map[uint64]bool // height -> views that have stored messages
	allCommits  []commitRec
	proposalSeq int
}

// --- Communication
func (n *cnode) SendConsensusMessage(ctx context.Context, recipients []primitives.MemberId, message *interfaces.ConsensusRawMessage) error {
	// in some runs the transport fails now and then: the node has done its part (the message is in the trace as sent), the
	// transport reports an error and delivers nothing; the node's state must not depend on it
	if n.failNext != "" && n.failNext == kindOf(message) && !n.isReplica { // a schedule lets exactly this send fail
		n.failNext = ""
		n.sends = append(n.sends, sendRec{to: recipients, raw: message, failed: true})
		return errors.New("transport error")
	}
	if n.cl.sendFailEvery > 0 && !n.isReplica {
		n.cl.sendSeq++
		if n.cl.sendSeq%n.cl.sendFailEvery == 0 {
			n.sends = append(n.sends, sendRec{to: recipients, raw: message, failed: true})
			return errors.New("transport error")
		}
	}
	n.sends = append(n.sends, sendRec{to: recipients, raw: message})
	return nil
}

// --- Membership
func (n *cnode) MyMemberId() primitives.MemberId { return n.id }
func (n *cnode) RequestOrderedCommittee(ctx context.Context, blockHeight primitives.BlockHeight, randomSeed uint64, prevBlockReferenceTime primitives.TimestampSeconds) ([]interfaces.CommitteeMember, error) {
	return n.cl.committeeFor(uint64(blockHeight), prevBlockReferenceTime), nil
}
func (n *cnode) RequestCommitteeForBlockProof(ctx context.Context, blockHeight primitives.BlockHeight, prevBlockReferenceTime primitives.TimestampSeconds) ([]interfaces.CommitteeMember, error) {
	com := n.cl.committeeFor(uint64(blockHeight), prevBlockReferenceTime)
	out := make([]interfaces.CommitteeMember, len(com)) // any order: reversed
	for i := range com {
		out[len(com)-1-i] = com[i]
	}
	return out, nil
}

// committeeFor: the committee of a height is in force at the reference time of the PREVIOUS block (vBlock: 1000 + its
// height; 0 for genesis).  Asked with any other reference time, the membership answers with another epoch's committee:
// the outsiders only.
func (cl *cluster) committeeFor(h uint64, prevRef primitives.TimestampSeconds) []interfaces.CommitteeMember {
	want := primitives.TimestampSeconds(0)
	if h > 1 {
		want = primitives.TimestampSeconds(1000 + h - 1)
	}
	if cl.prevRefGiven != nil { // a table driver says which previous block it hands to the call
		want = *cl.prevRefGiven
	}
	if cl.heightGiven != nil && h != *cl.heightGiven {
		cl.wrongHeightAsked++
	}
	if prevRef == want || len(cl.ids) == cl.nMembers {
		return cl.committeeAt(h)
	}
	cl.wrongEpochAsked++
	var out []interfaces.CommitteeMember
	for _, id := range cl.ids[cl.nMembers:] {
		out = append(out, interfaces.CommitteeMember{Id: id, Weight: 1})
	}
	return out
}

// --- BlockUtils
func (n *cnode) RequestNewBlockProposal(ctx context.Context, blockHeight primitives.BlockHeight, memberId primitives.MemberId, prevBlock interfaces.Block) (interfaces.Block, primitives.BlockHash) {
	n.proposalSeq++
	n.proposals++
	body := fmt.Sprintf("b%d.n%d.%d", uint64(blockHeight), n.idx, n.proposalSeq)
	n.cl.addBody(body)
	n.proposed = append(n.proposed, body)
	n.proposedBy = append(n.proposedBy, n.cl.nameOf(memberId))
	return &vBlock{height: uint64(blockHeight), body: body}, hashOfBody(body)
}

// validAt is the consumer-side validator of node n: bodies starting with "X" are rejected by every
// correct node, bodies starting with "Y<k>" by node k; the block must be for the asked height and
// must match the hash (as a real consumer validates the proposal it is given).
func (n *cnode) validAt(height uint64, block interfaces.Block, hash primitives.BlockHash) bool {
	vb, ok := block.(*vBlock)
	if !ok || vb == nil {
		return n.cl.lenient // a sloppy consumer that does not look at a missing block
	}
	if vb.height != height || string(hashOfBody(vb.body)) != string(hash) {
		return false
	}
	if strings.HasPrefix(vb.body, "X") || strings.HasPrefix(vb.body, fmt.Sprintf("Y%d.", n.idx)) {
		return false
	}
	return true
}

func (n *cnode) ValidateBlockProposal(ctx context.Context, blockHeight primitives.BlockHeight, memberId primitives.MemberId, block interfaces.Block, blockHash primitives.BlockHash, prevBlock interfaces.Block) error {
	ok := n.validAt(uint64(blockHeight), block, blockHash)
	n.validations = append(n.validations, validationRec{height: uint64(blockHeight), body: blockName(block), ok: ok, by: n.cl.nameOf(memberId)})
	if !ok {
		return errors.New("consumer rejects the proposal")
	}
	return nil
}

func (n *cnode) ValidateBlockCommitment(blockHeight primitives.BlockHeight, block interfaces.Block, blockHash primitives.BlockHash) bool {
	vb, ok := block.(*vBlock)
	if !ok || vb == nil {
		return false
	}
	return vb.height == uint64(blockHeight) && string(hashOfBody(vb.body)) == string(blockHash)
}

// --- ElectionScheduler
func (n *cnode) RegisterOnElection(blockHeight primitives.BlockHeight, view primitives.View, cb func(blockHeight primitives.BlockHeight, view primitives.View, onElectionCB interfaces.OnElectionCallback)) {
	n.regH, n.regV, n.regCb = uint64(blockHeight), uint64(view), cb
	n.regSeq++
}
func (n *cnode) ElectionChannel() chan *interfaces.ElectionTrigger { return n.elecCh }
func (n *cnode) CalcTimeout(view primitives.View) time.Duration {
	return time.Millisecond << uint(minU64(uint64(view), 30))
}
func (n *cnode) Stop() { n.regCb = nil }

// --- callbacks
func (n *cnode) onCommit(ctx context.Context, block interfaces.Block, blockProof []byte) error {
	vb, _ := block.(*vBlock)
	c := commitRec{block: vb, proof: append([]byte{}, blockProof...)}
	n.commits = append(n.commits, c)
	n.allCommits = append(n.allCommits, c)
	return nil
}

func (n *cnode) onNewRound(ctx context.Context, newHeight primitives.BlockHeight, prevBlock interfaces.Block, canBeFirstLeader bool) {
	n.rounds = append(n.rounds, obj{"h": absNum(uint64(newHeight)), "first": canBeFirstLeader})
}

// ---------------------------------------------------------------- recording storage

type recStorage struct {
	*storage.InMemoryStorage
	n *cnode
}

func (n *cnode) touch(h primitives.BlockHeight, v primitives.View) {
	if n.views == nil {
		n.views = map[uint64]map[uint64]bool{}
	}
	if n.views[uint64(h)] == nil {
		n.views[uint64(h)] = map[uint64]bool{}
	}
	n.views[uint64(h)][uint64(v)] = true
}

func (n *cnode) touchedViews(h uint64) []uint64 {
	out := []uint64{}
	for v := range n.views[h] {
		out = append(out, v)
	}
	sort.Slice(out, func(i, j int) bool { return out[i] < out[j] })
	return out
}

func (s *recStorage) StorePreprepare(m *interfaces.PreprepareMessage) bool {
	s.n.touch(m.BlockHeight(), m.View())
	ok := s.InMemoryStorage.StorePreprepare(m)
	s.n.stores = append(s.n.stores, storeRec{"PP", ok, m, uint64(s.n.st.Height())})
	return ok
}
func (s *recStorage) StorePrepare(m *interfaces.PrepareMessage) bool {
	s.n.touch(m.BlockHeight(), m.View())
	ok := s.InMemoryStorage.StorePrepare(m)
	s.n.stores = append(s.n.stores, storeRec{"P", ok, m, uint64(s.n.st.Height())})
	return ok
}
func (s *recStorage) StoreCommit(m *interfaces.CommitMessage) bool {
	s.n.touch(m.BlockHeight(), m.View())
	ok := s.InMemoryStorage.StoreCommit(m)
	s.n.stores = append(s.n.stores, storeRec{"C", ok, m, uint64(s.n.st.Height())})
	return ok
}
func (s *recStorage) StoreViewChange(m *interfaces.ViewChangeMessage) bool {
	s.n.touch(m.BlockHeight(), m.View())
	ok := s.InMemoryStorage.StoreViewChange(m)
	s.n.stores = append(s.n.stores, storeRec{"VC", ok, m, uint64(s.n.st.Height())})
	return ok
}

// ---------------------------------------------------------------- cluster

type cluster struct {
	ring                   *keyring
	ids                    []primitives.MemberId // all identities: members then outsiders
	nMembers               int
	weights                []uint64
	byz                    map[int]bool
	rotate                 bool // committee order shifts by one per height
	prevRefGiven           *primitives.TimestampSeconds
	heightGiven            *uint64  // a table driver says which block it hands to the call
	wrongHeightAsked       int      // committee requests for another height than that block's
	wrongEpochAsked        int      // committee requests with a reference time that is not the previous block's
	nodes                  []*cnode // index = member index; nil for Byzantine members
	bodies                 map[string]bool
	bodiesMu               sync.Mutex
	byHash                 map[string]string
	sendFailEvery, sendSeq int // every k-th send of a correct node fails (0: never)
	oneShotTimer           bool // a fired registration is spent unless the node registered again while handling it
	// membership change: from height exclFrom on (0: never) member exclIdx is no longer in the committee; its place (and weight)
	// is taken by the identity after the adversary's outsider, a member nobody plays (silent)
	exclIdx   int
	exclFrom  uint64
	lenient   bool // consumer validators accept a proposal without a block
	genesisOk bool
}

func (cl *cluster) addBody(b string) {
	cl.bodiesMu.Lock()
	cl.bodies[b] = true
	if cl.byHash == nil {
		cl.byHash = map[string]string{}
	}
	cl.byHash[string(hashOfBody(b))] = b
	cl.bodiesMu.Unlock()
}

func idName(i int) string { return fmt.Sprintf("n%d", i) }

func (cl *cluster) nameOf(id primitives.MemberId) string {
	for i, x := range cl.ids {
		if x.Equal(id) {
			if i < cl.nMembers {
				return idName(i)
			}
			return fmt.Sprintf("o%d", i-cl.nMembers)
		}
	}
	if len(id) == 0 {
		return "empty"
	}
	return "?"
}

func (cl *cluster) idOf(name string) primitives.MemberId {
	var i int
	if strings.HasPrefix(name, "n") {
		fmt.Sscanf(name[1:], "%d", &i)
		if i < cl.nMembers {
			return cl.ids[i]
		}
	}
	if strings.HasPrefix(name, "o") {
		fmt.Sscanf(name[1:], "%d", &i)
		if cl.nMembers+i < len(cl.ids) {
			return cl.ids[cl.nMembers+i]
		}
	}
	if name == "empty" {
		return primitives.MemberId{}
	}
	return primitives.MemberId("unknown-" + name)
}

// committeeAt: ordered committee of a height (leader of view v = position v mod n)
func (cl *cluster) committeeAt(h uint64) []interfaces.CommitteeMember {
	// (membership answers go through committeeFor)
	out := make([]interfaces.CommitteeMember, cl.nMembers)
	shift := 0
	if cl.rotate {
		shift = int(h % uint64(cl.nMembers))
	}
	for i := 0; i < cl.nMembers; i++ {
		j := (i + shift) % cl.nMembers
		id := cl.ids[j]
		if cl.exclFrom > 0 && h >= cl.exclFrom && j == cl.exclIdx && len(cl.ids) > cl.nMembers+1 {
			id = cl.ids[cl.nMembers+1]
		}
		out[i] = interfaces.CommitteeMember{Id: id, Weight: primitives.MemberWeight(cl.weights[j])}
	}
	return out
}

func (cl *cluster) committeeNames(h uint64) []string {
	com := cl.committeeAt(h)
	out := make([]string, len(com))
	for i, m := range com {
		out[i] = cl.nameOf(m.Id)
	}
	return out
}

// clusterIdShape: what the member ids of the next cluster look like (ids are opaque byte strings of any length)
var clusterIdShape int

func newCluster(weights []uint64, byz []int, outsiders int, rotate bool) *cluster {
	cl := &cluster{nMembers: len(weights), weights: weights, byz: map[int]bool{}, rotate: rotate, bodies: map[string]bool{}}
	for i := 0; i < len(weights)+outsiders; i++ {
		switch clusterIdShape {
		case 1: // long ids that differ only after a common 26-byte prefix
			cl.ids = append(cl.ids, primitives.MemberId(fmt.Sprintf("lean-helix-validator-node-%04d", i)))
		case 2: // ids that differ only by trailing zero bytes
			cl.ids = append(cl.ids, primitives.MemberId(append([]byte("zero-padded-id"), make([]byte, i)...)))
		default:
			cl.ids = append(cl.ids, primitives.MemberId(fmt.Sprintf("id-%02d-%s", i, strings.Repeat("k", 4))))
		}
	}
	cl.ring = newKeyring(cl.ids)
	for _, b := range byz {
		cl.byz[b] = true
	}
	cl.nodes = make([]*cnode, cl.nMembers)
	for i := 0; i < cl.nMembers; i++ {
		if !cl.byz[i] {
			cl.nodes[i] = cl.newNode(i)
		}
	}
	return cl
}

func (cl *cluster) newNode(i int) *cnode {
	n := &cnode{cl: cl, idx: i, id: cl.ids[i], idle: make(chan struct{}), resume: make(chan struct{}),
		elecCh: make(chan *interfaces.ElectionTrigger)}
	n.store = &recStorage{InMemoryStorage: storage.NewInMemoryStorage(), n: n}
	cfg := &interfaces.Config{
		InstanceId:    clusterInstance,
		Communication: n,
		Membership:    n,
		BlockUtils:    n,
		KeyManager:    &nodeKeyManager{ring: cl.ring, me: n.id},
		Storage:       n.store,
	}
	n.st = state.NewState()
	logger := L.NewLhLogger(cfg, n.st)
	n.worker = leanhelix.NewWorkerLoop(n.st, cfg, logger, n, n.onCommit, n.onNewRound)
	n.worker.VerifSetHooks(&leanhelix.VerifHooks{WorkerIdle: func() {
		n.idle <- struct{}{}
		<-n.resume
	}})
	ctx, cancel := context.WithCancel(context.Background())
	n.cancel = cancel
	go func() {
		for ctx.Err() == nil { // restart after a panic, as govnr.Forever does
			func() {
				defer func() {
					if r := recover(); r != nil {
						n.panicked = fmt.Sprint(r)
					}
				}()
				n.worker.Run(ctx)
			}()
		}
	}()
	<-n.idle // worker is parked at the gate
	return n
}

func (n *cnode) resetObs() {
	n.sends, n.stores, n.validations, n.commits, n.rounds, n.proposals, n.panicked, n.proposed, n.proposedBy = nil, nil, nil, nil, nil, 0, "", nil, nil
}

// step releases the worker for exactly one loop iteration (one input is ready) and waits for it to
// come back to the gate.
func (n *cnode) step() {
	if n.wedged {
		return
	}
	n.resume <- struct{}{}
	select {
	case <-n.idle:
	case <-time.After(wedgeAfter):
		// the worker took the input and never came back to the top of its loop (a lock it leaked, a wait nobody ends):
		// nothing of this node can be read any more (its storage may be locked); the run ends with a "wedged" event
		n.wedged = true
	}
}

var wedgeAfter = 10 * time.Second

func (n *cnode) deliver(raw *interfaces.ConsensusRawMessage) {
	n.inputs = append(n.inputs, inputRec{kind: "deliver", raw: raw})
	n.resetObs()
	n.worker.MessagesChannel <- raw
	n.step()
}

func (n *cnode) sync(prev *vBlock, proof []byte) {
	n.inputs = append(n.inputs, inputRec{kind: "sync", prev: prev, proof: proof})
	n.resetObs()
	var b interfaces.Block
	if prev != nil {
		b = prev
	}
	n.worker.VerifPostUpdateState(b, proof)
	n.step()
}

// timeout fires the election registered by the term, if it is still the current one (the main loop /
// timer would otherwise never hand it to the worker).
func (n *cnode) timeout() bool {
	n.resetObs()
	if n.regCb == nil {
		return false
	}
	n.inputs = append(n.inputs, inputRec{kind: "timeout"})
	h, v, cb := n.regH, n.regV, n.regCb
	n.worker.VerifPostElection(&interfaces.ElectionTrigger{
		MoveToNextLeader: func() { cb(primitives.BlockHeight(h), primitives.View(v), nil) },
		Hv:               state.NewHeightView(primitives.BlockHeight(h), primitives.View(v)),
	})
	seq := n.regSeq
	n.step()
	// the real timer fires once per arming: unless the node armed it again while it handled the trigger, there is no timer any more
	// (liveness driver only: a member that leaves an election without a timer is then seen for what it is, seeded change Q06)
	if n.cl.oneShotTimer && n.regSeq == seq {
		n.regCb = nil
	}
	return true
}

func (n *cnode) shutdown() {
	n.cancel()
	select {
	case n.resume <- struct{}{}:
	default:
	}
}

// replica: a copy of node n obtained by replay - a fresh real node with n's identity, keys, committee and consumer, given
// every input n was given so far (the fakes are deterministic functions of the node's own history, so the copy proposes
// the same blocks and signs the same messages).  Returns nil when the copy does not end in n's state.
func (cl *cluster) replica(n *cnode) *cnode {
	c := cl.newNode(n.idx)
	c.isReplica = true
	for _, in := range n.inputs {
		switch in.kind {
		case "deliver":
			c.deliver(in.raw)
		case "sync":
			c.sync(in.prev, in.proof)
		case "timeout":
			c.timeout()
		}
	}
	a, _ := json.Marshal(n.nodeState())
	b, _ := json.Marshal(c.nodeState())
	if string(a) != string(b) {
		c.shutdown()
		return nil
	}
	return c
}

func (cl *cluster) close() {
	for _, n := range cl.nodes {
		if n != nil {
			n.shutdown()
		}
	}
}

func minU64(a, b uint64) uint64 {
	if a < b {
		return a
	}
	return b
}
