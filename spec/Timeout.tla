------------------------------ MODULE Timeout ------------------------------
(* C19 (formula part): election timeout for view v is base * 2^v, saturating.             *)
EXTENDS BigNat
\* exact product when it fits a time.Duration (int64 nanoseconds), else "does not fit"
Fits(base, v)  == v <= 63 /\ Le(ShiftLeft(base, v), MaxInt64)
Exact(base, v) == ShiftLeft(base, v)
=============================================================================
