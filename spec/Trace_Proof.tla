----------------------------- MODULE Trace_Proof -----------------------------
(* P4 for the prepared-proof rule behind C07, C08, C09 and C11: each line is one call of the real    *)
(* proofsvalidator.ValidatePreparedProof on a proof built by the harness with every key in hand - a   *)
(* fully valid proof for every subset of PREPARE senders (the quorum boundary), and the proof signed   *)
(* by everybody changed in exactly one respect (and random pairs of changes).  The line carries the    *)
(* harness's own parse of the proof bytes with ground-truth signature flags; TLC recomputes the        *)
(* verdict with LHMessages!ValidProof.                                                                 *)
EXTENDS LHMessages, Json, IOUtils
Trace == ndJsonDeserialize(IOEnv.VERIF_TRACE)
VARIABLES l
HdrOf(e) == [com |-> e.com, w |-> e.w, byz |-> <<>>, nodes |-> <<>>]
Init == l = 1 /\ hdr = HdrOf(Trace[1])
Chk(cond, tag) == cond \/ PrintT(<<"VERIF_BAD", tag, l>>)
Next == /\ l <= Len(Trace)
        /\ l' = l + 1
        /\ hdr' = IF l + 1 <= Len(Trace) THEN HdrOf(Trace[l + 1]) ELSE hdr
        /\ LET e == Trace[l]
               valid == ValidProofBody(e.proof, e.h, e.tv) IN   \* the function is not told the instance: that part of the rule is decided where
                                                               \* the instance is known (guard tables of Trace_Cluster, finding H17)
           /\ Chk(~e.panic, "c12_proof_validator_panics")
           \* a proof that is not valid must not be accepted: it would be counted as a lock (C08: VIEW_CHANGE with an
           \* invalid proof stored; C07: NEW_VIEW following an invalid proof)
           /\ Chk(e.accepted => valid, "c08_invalid_prepared_proof_accepted")
           /\ Chk(e.accepted => valid, "c07_invalid_prepared_proof_accepted")
           \* a valid proof must be accepted: it is what a correct prepared node sends (C09) and what the correct leader must count (C11)
           /\ Chk(valid => e.accepted, "c11_valid_prepared_proof_rejected")
           /\ Chk(valid => e.accepted, "c09_valid_prepared_proof_rejected")
=============================================================================
