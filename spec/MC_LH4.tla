------------------------------- MODULE MC_LH4 -------------------------------
(* N = 4, unit weights, n1 Byzantine (it leads view 1). *)
EXTENDS MC_LeanHelix
cCom == <<"n0", "n1", "n2", "n3">>
cHdr == [com |-> <<cCom, cCom, cCom>>, w |-> [n0 |-> 1, n1 |-> 1, n2 |-> 1, n3 |-> 1], byz |-> <<"n1">>, nodes |-> <<"n0", "n2", "n3">>]
cBlocks == {"z", "X"}
=============================================================================
