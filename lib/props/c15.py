"""C15 contexts.  Part 1 (registry laws): ViewContexts.tla model-checked exhaustively; the real
state.ViewContexts walked through every call sequence up to a depth plus long random sequences, every
call judged by TLC (Trace_ViewContexts).  Part 2 (runtime: SPI contexts released on election / sync /
shutdown, no proposal after a cancelled call) is in props/runtime.py."""
import json, os, shutil
import vlib
from props import trees

PID = "C15"


def _describe(path):
    return " ".join("%s(%s,%s)->%s" % (e["op"], e.get("h"), e.get("v"), e.get("res")) for e in path[-8:])


def registry(rep, tier, seed, replay_in=None):
    if tier == "quick":
        args = ["-seed", seed, "-depth", 4, "-heights", 2, "-views", "0,1,9", "-rand", 300, "-randlen", 60]
    else:
        args = ["-seed", seed, "-depth", 5, "-heights", 2, "-views", "0,1,9", "-rand", 3000, "-randlen", 80]
    lines, bad, out = trees.run_tree(rep, PID, "vctx", args, "Trace_ViewContexts", "Trace_ViewContexts.cfg", _describe,
                                     replay_in=replay_in)
    if replay_in is None and tier == "thorough":   # a second tree over the larger position grid, shallower
        args = ["-seed", seed, "-depth", 3, "-heights", 3, "-views", "0,1,2,9", "-rand", 0]
        trees.run_tree(rep, PID, "vctx", args, "Trace_ViewContexts", "Trace_ViewContexts.cfg", _describe)


def run(tier, seed):
    rep = vlib.Report(PID, tier, seed)
    rep.assumptions = ["abstract view 9 stands for MaxUint64 (the term-level umbrella context)",
                       "a position's status is read from the context most recently handed out for it"]
    cfg = "MC_ViewContexts_quick.cfg" if tier == "quick" else "MC_ViewContexts_thorough.cfg"
    r = vlib.tlc_must_pass("MC_ViewContexts", cfg, timeout=1200)
    if r.violated:
        raise vlib.Inconclusive("registry laws fail in ViewContexts.tla itself (%s): spec bug" % r.violated)
    rep.add_tlc(r, "ViewContexts.tla complete state graph (%s): every call order is a path" % cfg)
    rep.exhaustive = True
    registry(rep, tier, seed)
    try:
        from props import runtime
    except ImportError:
        runtime = None
    if runtime and hasattr(runtime, "c15"):
        runtime.c15(rep, tier, seed)
    return rep.finish()


def replay(path, seed):
    rep = vlib.Report(PID, "quick", seed)
    rep.replay_of = path
    payload = json.load(open(path))
    wd = vlib.scratch_dir("c15r")
    try:
        if payload.get("kind") == "vctx-path":
            registry(rep, "quick", seed, replay_in=trees.replay_path(payload, wd))
        else:
            from props import runtime
            runtime.replay(rep, payload, seed)
    finally:
        shutil.rmtree(wd, ignore_errors=True)
    return rep.finish()
