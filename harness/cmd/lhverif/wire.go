package main

// C20: everything the real MessageFactory can build is converted to a raw message and parsed back; the
// full accessor dump before / after / after a second parse and the verification result of every signature
// are written as one line per message for TLC (Trace_Wire.tla).

import (
	"context"
	"crypto/sha256"
	"encoding/hex"
	"errors"
	"flag"
	"fmt"
	"math"
	"math/rand"
	"strconv"

	"github.com/orbs-network/lean-helix-go/services/blockproof"
	"github.com/orbs-network/lean-helix-go/services/interfaces"
	"github.com/orbs-network/lean-helix-go/services/messagesfactory"
	"github.com/orbs-network/lean-helix-go/services/preparedmessages"
	"github.com/orbs-network/lean-helix-go/services/randomseed"
	"github.com/orbs-network/lean-helix-go/spec/types/go/primitives"
	"github.com/orbs-network/lean-helix-go/spec/types/go/protocol"
)

func init() { register("wire", cmdWire) }

// wireKM signs with arbitrary bytes of a configurable length (a PRF of signer, height and content).
type wireKM struct {
	me     primitives.MemberId
	sigLen int
}

func prf(tag string, id []byte, height uint64, content []byte, n int) []byte {
	out := make([]byte, 0, n+32)
	for ctr := 0; len(out) < n; ctr++ {
		h := sha256.New()
		h.Write([]byte(tag))
		h.Write(id)
		h.Write([]byte(strconv.FormatUint(height, 10)))
		h.Write([]byte{byte(ctr)})
		h.Write(content)
		out = h.Sum(out)
	}
	return out[:n]
}

func (k *wireKM) SignConsensusMessage(ctx context.Context, h primitives.BlockHeight, content []byte) primitives.Signature {
	return prf("C", k.me, uint64(h), content, k.sigLen)
}
func (k *wireKM) VerifyConsensusMessage(h primitives.BlockHeight, content []byte, sender *protocol.SenderSignature) error {
	if string(prf("C", sender.MemberId(), uint64(h), content, k.sigLen)) != string(sender.Signature()) {
		return errors.New("bad signature")
	}
	return nil
}
func (k *wireKM) SignRandomSeed(ctx context.Context, h primitives.BlockHeight, content []byte) primitives.RandomSeedSignature {
	return prf("R", k.me, uint64(h), content, k.sigLen)
}
func (k *wireKM) VerifyRandomSeed(h primitives.BlockHeight, content []byte, sender *protocol.SenderSignature) error {
	if string(prf("R", sender.MemberId(), uint64(h), content, k.sigLen)) != string(sender.Signature()) {
		return errors.New("bad share")
	}
	return nil
}
func (k *wireKM) AggregateRandomSeed(h primitives.BlockHeight, shares []*protocol.SenderSignature) primitives.RandomSeedSignature {
	hh := sha256.New()
	for _, s := range shares {
		hh.Write(s.Raw())
	}
	return prf("A", hh.Sum(nil), uint64(h), nil, k.sigLen)
}

func hx(b []byte) string { return hex.EncodeToString(b) }
func u(x uint64) string  { return strconv.FormatUint(x, 10) }

func dumpRef(r *protocol.BlockRef) obj {
	return obj{"ht": int(r.MessageType()), "inst": u(uint64(r.InstanceId())), "h": u(uint64(r.BlockHeight())), "v": u(uint64(r.View())), "x": hx(r.BlockHash())}
}
func dumpSender(s *protocol.SenderSignature) obj {
	return obj{"id": hx(s.MemberId()), "sig": hx(s.Signature())}
}
func dumpProof(p *protocol.PreparedProof) obj {
	if p == nil || len(p.Raw()) == 0 {
		return obj{"has": false}
	}
	ps := []obj{}
	it := p.PrepareSendersIterator()
	for it.HasNext() {
		ps = append(ps, dumpSender(it.NextPrepareSenders()))
	}
	return obj{"has": true, "ppref": dumpRef(p.PreprepareBlockRef()), "pps": dumpSender(p.PreprepareSender()), "pref": dumpRef(p.PrepareBlockRef()), "ps": ps}
}
func dumpVote(c *protocol.ViewChangeMessageContent) obj {
	hd := c.SignedHeader()
	return obj{"ht": int(hd.MessageType()), "inst": u(uint64(hd.InstanceId())), "h": u(uint64(hd.BlockHeight())), "v": u(uint64(hd.View())),
		"proof": dumpProof(hd.PreparedProof()), "sender": dumpSender(c.Sender())}
}
func dumpBlock(b interfaces.Block) string {
	if b == nil {
		return "-"
	}
	return blockName(b) + "@" + u(uint64(b.Height()))
}

// dumpMsg: every accessor of the message, including the generic ConsensusMessage interface ones.
func dumpMsg(m interfaces.ConsensusMessage) obj {
	if m == nil {
		return obj{"k": "nil"}
	}
	o := obj{"mt": int(m.MessageType()), "minst": u(uint64(m.InstanceId())), "mh": u(uint64(m.BlockHeight())), "mv": u(uint64(m.View())), "ms": hx(m.SenderMemberId())}
	switch x := m.(type) {
	case *interfaces.PreprepareMessage:
		o["k"], o["ref"], o["sender"], o["blk"] = "PP", dumpRef(x.Content().SignedHeader()), dumpSender(x.Content().Sender()), dumpBlock(x.Block())
	case *interfaces.PrepareMessage:
		o["k"], o["ref"], o["sender"] = "P", dumpRef(x.Content().SignedHeader()), dumpSender(x.Content().Sender())
	case *interfaces.CommitMessage:
		o["k"], o["ref"], o["sender"], o["share"] = "C", dumpRef(x.Content().SignedHeader()), dumpSender(x.Content().Sender()), hx(x.Content().Share())
	case *interfaces.ViewChangeMessage:
		o["k"], o["vote"], o["blk"] = "VC", dumpVote(x.Content()), dumpBlock(x.Block())
	case *interfaces.NewViewMessage:
		hd := x.Content().SignedHeader()
		votes := []obj{}
		it := hd.ViewChangeConfirmationsIterator()
		for it.HasNext() {
			votes = append(votes, dumpVote(it.NextViewChangeConfirmations()))
		}
		pp := x.Content().Message()
		o["k"], o["ht"], o["votes"], o["sender"], o["blk"] = "NV", int(hd.MessageType()), votes, dumpSender(x.Content().Sender()), dumpBlock(x.Block())
		o["pp"] = obj{"ref": dumpRef(pp.SignedHeader()), "sender": dumpSender(pp.Sender())}
	}
	return o
}

func verifyRef(km interfaces.KeyManager, r *protocol.BlockRef, s *protocol.SenderSignature) bool {
	return km.VerifyConsensusMessage(r.BlockHeight(), r.Raw(), s) == nil
}
func verifyProof(km interfaces.KeyManager, p *protocol.PreparedProof, out []bool) []bool {
	if p == nil || len(p.Raw()) == 0 {
		return out
	}
	out = append(out, verifyRef(km, p.PreprepareBlockRef(), p.PreprepareSender()))
	it := p.PrepareSendersIterator()
	for it.HasNext() {
		out = append(out, verifyRef(km, p.PrepareBlockRef(), it.NextPrepareSenders()))
	}
	return out
}
func verifyVote(km interfaces.KeyManager, c *protocol.ViewChangeMessageContent, out []bool) []bool {
	out = append(out, km.VerifyConsensusMessage(c.SignedHeader().BlockHeight(), c.SignedHeader().Raw(), c.Sender()) == nil)
	return verifyProof(km, c.SignedHeader().PreparedProof(), out)
}

// verifyAll: verification result of every signature in the message, in a fixed order.
func verifyAll(km interfaces.KeyManager, m interfaces.ConsensusMessage, seed uint64) []bool {
	out := []bool{}
	switch x := m.(type) {
	case *interfaces.PreprepareMessage:
		out = append(out, verifyRef(km, x.Content().SignedHeader(), x.Content().Sender()))
	case *interfaces.PrepareMessage:
		out = append(out, verifyRef(km, x.Content().SignedHeader(), x.Content().Sender()))
	case *interfaces.CommitMessage:
		out = append(out, verifyRef(km, x.Content().SignedHeader(), x.Content().Sender()))
		share := (&protocol.SenderSignatureBuilder{MemberId: x.Content().Sender().MemberId(), Signature: primitives.Signature(x.Content().Share())}).Build()
		out = append(out, km.VerifyRandomSeed(x.BlockHeight(), randomseed.RandomSeedToBytes(seed), share) == nil)
	case *interfaces.ViewChangeMessage:
		out = verifyVote(km, x.Content(), out)
	case *interfaces.NewViewMessage:
		hd := x.Content().SignedHeader()
		out = append(out, km.VerifyConsensusMessage(hd.BlockHeight(), hd.Raw(), x.Content().Sender()) == nil)
		it := hd.ViewChangeConfirmationsIterator()
		for it.HasNext() {
			out = verifyVote(km, it.NextViewChangeConfirmations(), out)
		}
		out = append(out, verifyRef(km, x.Content().Message().SignedHeader(), x.Content().Message().Sender()))
	}
	return out
}

// expectedProof: the prepared proof a VIEW_CHANGE must carry, read off the PREPREPARE / PREPARE messages given to the factory
func expectedProof(pm *preparedmessages.PreparedMessages) obj {
	pp := pm.PreprepareMessage
	ppref := dumpRef(pp.Content().SignedHeader())
	ppref["ht"] = int(protocol.LEAN_HELIX_PREPREPARE)
	o := obj{"has": true, "ppref": ppref, "pps": dumpSender(pp.Content().Sender())}
	ps := []obj{}
	for _, p := range pm.PrepareMessages {
		ps = append(ps, dumpSender(p.Content().Sender()))
	}
	o["ps"] = ps
	if len(pm.PrepareMessages) > 0 {
		pref := dumpRef(pm.PrepareMessages[0].Content().SignedHeader())
		pref["ht"] = int(protocol.LEAN_HELIX_PREPARE)
		o["pref"] = pref
	}
	return o
}

func comparableProof(p *protocol.PreparedProof, withPrepares bool) obj {
	o := dumpProof(p)
	if !withPrepares {
		delete(o, "pref")
	}
	return o
}

var numClasses = []uint64{0, 1, 2, 1<<32 - 1, 1 << 32, 1 << 63, math.MaxUint64}
var lenClasses = []int{0, 1, 32, 255, 256}

type wireGen struct {
	rnd    *rand.Rand
	sigLen int
	inst   primitives.InstanceId
	seed   uint64
}

func (g *wireGen) bytesOf(n int) []byte {
	b := make([]byte, n)
	g.rnd.Read(b)
	return b
}
func (g *wireGen) num() uint64 {
	if g.rnd.Intn(3) == 0 {
		return g.rnd.Uint64()
	}
	return numClasses[g.rnd.Intn(len(numClasses))]
}
func (g *wireGen) ln() int {
	if g.rnd.Intn(4) == 0 {
		return g.rnd.Intn(257)
	}
	return lenClasses[g.rnd.Intn(len(lenClasses))]
}
func (g *wireGen) factory(id primitives.MemberId) *messagesfactory.MessageFactory {
	return messagesfactory.NewMessageFactory(g.inst, &wireKM{me: id, sigLen: g.sigLen}, id, g.seed)
}

func (g *wireGen) prepared(h, v uint64, hash primitives.BlockHash, block interfaces.Block, nprep int) *preparedmessages.PreparedMessages {
	pm := &preparedmessages.PreparedMessages{PreprepareMessage: g.factory(g.bytesOf(g.ln())).CreatePreprepareMessage(primitives.BlockHeight(h), primitives.View(v), block, hash)}
	for i := 0; i < nprep; i++ {
		pm.PrepareMessages = append(pm.PrepareMessages, g.factory(g.bytesOf(g.ln())).CreatePrepareMessage(primitives.BlockHeight(h), primitives.View(v), hash))
	}
	return pm
}

func cmdWire(args []string) int {
	fs := flag.NewFlagSet("wire", flag.ExitOnError)
	outPath := fs.String("out", "wire.ndjson", "")
	seed := fs.Int64("seed", 1, "")
	fills := fs.Int("fills", 6, "field fills per shape")
	big := fs.Int("big", 50, "messages with up to 20 votes / 20 prepare senders")
	proofs := fs.Int("proofs", 200, "block proofs generated from commit messages")
	fs.Parse(args)
	rnd := newRand(*seed)
	out := newNdjson(*outPath)
	defer out.close()

	one := func(shape obj, isBig bool) {
		defer func() {
			if rec := recover(); rec != nil { // building, serialising or parsing a message of the grammar never panics
				out.emit(obj{"shape": shape, "big": isBig, "before": obj{"panic": fmt.Sprint(rec)}, "after": obj{"panic": ""}, "after2": obj{"panic": ""}, "vb": []bool{}, "va": []bool{}})
			}
		}()
		g := &wireGen{rnd: rnd, sigLen: lenClasses[rnd.Intn(len(lenClasses))], inst: primitives.InstanceId(numClasses[rnd.Intn(len(numClasses))]), seed: rnd.Uint64()}
		if rnd.Intn(3) == 0 {
			g.sigLen = rnd.Intn(257)
		}
		h, v := g.num(), g.num()
		hash := primitives.BlockHash(g.bytesOf(g.ln()))
		var block interfaces.Block
		if shape["blk"].(bool) {
			block = &vBlock{height: h, body: fmt.Sprintf("w%d", rnd.Intn(1000))}
		}
		me := primitives.MemberId(g.bytesOf(g.ln()))
		f := g.factory(me)
		km := &wireKM{me: me, sigLen: g.sigLen}
		var m interfaces.ConsensusMessage
		var vcIn *preparedmessages.PreparedMessages
		var nvIn []*interfaces.ViewChangeMessage
		nprep := shape["nprep"].(int)
		switch shape["k"].(string) {
		case "PP":
			m = f.CreatePreprepareMessage(primitives.BlockHeight(h), primitives.View(v), block, hash)
		case "P":
			m = f.CreatePrepareMessage(primitives.BlockHeight(h), primitives.View(v), hash)
		case "C":
			m = f.CreateCommitMessage(primitives.BlockHeight(h), primitives.View(v), hash)
		case "VC":
			var pm *preparedmessages.PreparedMessages
			if shape["proof"].(bool) {
				pm = g.prepared(h, g.num(), hash, block, nprep)
				if nprep == 0 {
					pm.PrepareMessages = nil
				}
			}
			vcIn = pm
			vc := f.CreateViewChangeMessage(primitives.BlockHeight(h), primitives.View(v), pm)
			if !shape["proof"].(bool) && block != nil { // a block can be attached independently of a proof
				vc = interfaces.NewViewChangeMessage(vc.Content(), block)
			}
			m = vc
		case "NV":
			var vcms []*interfaces.ViewChangeMessage
			nv, pv := shape["nvotes"].(int), shape["pvotes"].(int)
			for i := 0; i < nv; i++ {
				var pm *preparedmessages.PreparedMessages
				if i < pv {
					pm = g.prepared(h, g.num(), primitives.BlockHash(g.bytesOf(g.ln())), nil, nprep)
					if nprep == 0 {
						pm.PrepareMessages = nil
					}
				}
				vcms = append(vcms, g.factory(g.bytesOf(g.ln())).CreateViewChangeMessage(primitives.BlockHeight(h), primitives.View(v), pm))
			}
			nvIn = vcms
			if nvIn == nil {
				nvIn = []*interfaces.ViewChangeMessage{}
			}
			ppb := f.CreatePreprepareMessageContentBuilder(primitives.BlockHeight(h), primitives.View(v), block, hash)
			m = f.CreateNewViewMessage(primitives.BlockHeight(h), primitives.View(v), ppb, interfaces.ExtractConfirmationsFromViewChangeMessages(vcms), block)
		}
		raw := m.ToConsensusRawMessage()
		m2 := interfaces.ToConsensusMessage(raw)
		// what went INTO the factory, compared with what comes out of the parsed message
		inputs, outputs := obj{}, obj{}
		if vcIn != nil {
			inputs["proof"] = expectedProof(vcIn)
			if x, ok := m2.(*interfaces.ViewChangeMessage); ok {
				outputs["proof"] = comparableProof(x.Content().SignedHeader().PreparedProof(), len(vcIn.PrepareMessages) > 0)
			}
		}
		if nvIn != nil {
			iv := []obj{}
			for _, vcm := range nvIn {
				iv = append(iv, dumpVote(vcm.Content()))
			}
			inputs["votes"] = iv
			if x, ok := m2.(*interfaces.NewViewMessage); ok {
				ov := []obj{}
				it := x.Content().SignedHeader().ViewChangeConfirmationsIterator()
				for it.HasNext() {
					ov = append(ov, dumpVote(it.NextViewChangeConfirmations()))
				}
				outputs["votes"] = ov
			}
		}
		m3 := interfaces.ToConsensusMessage(&interfaces.ConsensusRawMessage{Content: append([]byte{}, raw.Content...), Block: raw.Block})
		before, after := dumpMsg(m), dumpMsg(m2)
		before["inputs"], after["inputs"] = inputs, outputs
		after2 := dumpMsg(m3)
		after2["inputs"] = outputs
		out.emit(obj{"shape": shape, "big": isBig, "before": before, "after": after, "after2": after2,
			"vb": verifyAll(km, m, g.seed), "va": verifyAll(km, m2, g.seed)})
	}

	var shapes []obj
	mk := func(k string, blk, proof bool, nprep, nvotes, pvotes int) obj {
		return obj{"k": k, "blk": blk, "proof": proof, "nprep": nprep, "nvotes": nvotes, "pvotes": pvotes}
	}
	for _, b := range []bool{false, true} {
		shapes = append(shapes, mk("PP", b, false, 0, 0, 0))
		for _, p := range []bool{false, true} {
			for n := 0; n <= 3; n++ {
				if !p && n > 0 {
					continue
				}
				shapes = append(shapes, mk("VC", b, p, n, 0, 0))
			}
		}
		for nv := 0; nv <= 3; nv++ {
			for pv := 0; pv <= nv; pv++ {
				for n := 0; n <= 3; n++ {
					if pv == 0 && n > 0 {
						continue
					}
					shapes = append(shapes, mk("NV", b, false, n, nv, pv))
				}
			}
		}
	}
	shapes = append(shapes, mk("P", false, false, 0, 0, 0), mk("C", false, false, 0, 0, 0))
	for _, s := range shapes {
		for i := 0; i < *fills; i++ {
			one(s, false)
		}
	}
	for i := 0; i < *big; i++ {
		nv := rnd.Intn(21)
		pv := 0
		if nv > 0 {
			pv = rnd.Intn(nv + 1)
		}
		np := 0
		if pv > 0 {
			np = rnd.Intn(21)
		}
		one(mk("NV", rnd.Intn(2) == 0, false, np, nv, pv), true)
		one(mk("VC", rnd.Intn(2) == 0, true, rnd.Intn(21), 0, 0), true)
	}

	// block proofs generated from commit messages
	for i := 0; i < *proofs; i++ {
		g := &wireGen{rnd: rnd, sigLen: lenClasses[rnd.Intn(len(lenClasses))], inst: primitives.InstanceId(numClasses[rnd.Intn(len(numClasses))]), seed: rnd.Uint64()}
		h, v := g.num(), g.num()
		hash := primitives.BlockHash(g.bytesOf(g.ln()))
		n := 1 + rnd.Intn(20)
		var commits []*interfaces.CommitMessage
		signers := []obj{}
		vb := []bool{}
		km := &wireKM{sigLen: g.sigLen}
		for j := 0; j < n; j++ {
			id := primitives.MemberId(g.bytesOf(g.ln()))
			cm := g.factory(id).CreateCommitMessage(primitives.BlockHeight(h), primitives.View(v), hash)
			commits = append(commits, cm)
			signers = append(signers, dumpSender(cm.Content().Sender()))
			vb = append(vb, verifyRef(km, cm.Content().SignedHeader(), cm.Content().Sender()))
		}
		bp := blockproof.GenerateLeanHelixBlockProof(km, commits)
		expect := obj{"ref": dumpRef(commits[0].Content().SignedHeader()), "signers": signers}
		parse := func(raw []byte) (obj, []bool) {
			p := protocol.BlockProofReader(raw)
			sg := []obj{}
			va := []bool{}
			it := p.NodesIterator()
			for it.HasNext() {
				s := it.NextNodes()
				sg = append(sg, dumpSender(s))
				va = append(va, verifyRef(km, p.BlockRef(), s))
			}
			return obj{"ref": dumpRef(p.BlockRef()), "signers": sg}, va
		}
		after, va := parse(bp.Raw())
		after2, _ := parse(append([]byte{}, bp.Raw()...))
		out.emit(obj{"shape": obj{"k": "BP", "n": n}, "big": true, "before": expect, "after": after, "after2": after2, "vb": vb, "va": va})
	}
	fmt.Printf("lines=%d shapes=%d\n", out.n, len(shapes))
	return 0
}
