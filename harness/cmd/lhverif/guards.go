package main

// Guard tables at message level: ONE real node; every other member's key is held by the table builder.  A message that
// is valid in every respect is built for the node's situation and then changed in exactly one respect, so each guard of
// HandleViewChange / HandleNewView (and the validators behind them) is reached with everything else in order.  Each case
// is a three-line run (init, start, deliver) in the cluster trace format: Trace_Cluster judges it with the formulas of
// C07 / C08 and with the conformance to LHNode like any other execution.

import (
	"flag"
	"fmt"
	"strings"

	"github.com/orbs-network/lean-helix-go/services/interfaces"
	"github.com/orbs-network/lean-helix-go/spec/types/go/primitives"
	"github.com/orbs-network/lean-helix-go/spec/types/go/protocol"
)

func init() { register("guards", cmdGuards) }

type guardEnv struct {
	cl   *cluster
	r    *run
	n    *cnode
	h    uint64
	tv   uint64
	blk  *vBlock
	vd   voteD   // VC table: the vote being delivered
	nv   nvD     // NV table
	vds  []voteD // NV table: the embedded votes
	nvBk *vBlock // NV table: the attached block
}

func loneCluster(ws []uint64, keep int, rotate bool) *cluster {
	var byz []int
	for j := range ws {
		if j != keep {
			byz = append(byz, j)
		}
	}
	return newCluster(ws, byz, len(ws)+2, rotate) // as many outsiders (with valid keys) as a quorum of votes needs, and more
}

func memberIdx(cl *cluster, id primitives.MemberId) int {
	for i := 0; i < cl.nMembers; i++ {
		if cl.ids[i].Equal(id) {
			return i
		}
	}
	return -1
}

// provenVote: the first vote of the NEW_VIEW under construction gets a valid prepared proof of view tv-1 for a new block,
// and the NEW_VIEW re-proposes that block
func provenVote(e *guardEnv, h uint64) {
	b := e.r.adv.newBody(e.r, h, false)
	pv := e.tv - 1
	leader := leaderAt(e.cl, h, pv)
	pr := proofD{present: true, pp: ref(protocol.LEAN_HELIX_PREPREPARE, h, pv, b), ppBy: leader, p: ref(protocol.LEAN_HELIX_PREPARE, h, pv, b)}
	for i := 0; i < e.cl.nMembers; i++ {
		if !e.cl.ids[i].Equal(leader) && e.cl.byz[i] {
			pr.pBy, pr.pModes = append(pr.pBy, e.cl.ids[i]), append(pr.pModes, "")
		}
	}
	e.vds[0].proof = pr
	e.nv.pp.hash, e.nvBk = hashOfBody(b.body), b
}

// validProofFor: a prepared proof of view pv for block b signed by that view's leader and every other member the adversary holds
func validProofFor(e *guardEnv, h, pv uint64, b *vBlock) proofD {
	leader := leaderAt(e.cl, h, pv)
	pr := proofD{present: true, pp: ref(protocol.LEAN_HELIX_PREPREPARE, h, pv, b), ppBy: leader, p: ref(protocol.LEAN_HELIX_PREPARE, h, pv, b)}
	for i := 0; i < e.cl.nMembers; i++ {
		if !e.cl.ids[i].Equal(leader) && e.cl.byz[i] {
			pr.pBy, pr.pModes = append(pr.pBy, e.cl.ids[i]), append(pr.pModes, "")
		}
	}
	return pr
}

// shieldedOlderLock: see the deviation list; order = positions of (older lock, garbage, newer lock) among the first three votes
func shieldedOlderLock(e *guardEnv, h uint64, order [3]int) {
	if e.tv < 6 || len(e.vds) < 3 {
		return
	}
	b1, b3, g := e.r.adv.newBody(e.r, h, false), e.r.adv.newBody(e.r, h, false), e.r.adv.newBody(e.r, h, false)
	older, newer := validProofFor(e, h, e.tv-5, b1), validProofFor(e, h, e.tv-3, b3)
	garbage := validProofFor(e, h, e.tv-1, g)
	garbage.p.v = 0
	senders := []primitives.MemberId{e.vds[0].sender, e.vds[1].sender, e.vds[2].sender}
	proofs := []proofD{older, garbage, newer}
	for k := 0; k < 3; k++ {
		e.vds[order[k]].proof = proofs[k]
		e.vds[order[k]].sender = senders[order[k]]
	}
	e.nv.pp.hash, e.nvBk = hashOfBody(b1.body), b1
}

// threeLocks: three votes carry genuine proofs of three different earlier views (tv-5, tv-3, tv-1) for three different blocks, placed
// in the given order among the first three votes; the NEW_VIEW proposes the block of the oldest (0), middle (1) or newest (2) proof.
// Only the newest is what the votes justify, whatever their order.
func threeLocks(e *guardEnv, h uint64, order [3]int, propose int) {
	if e.tv < 6 || len(e.vds) < 3 {
		return
	}
	bs := []*vBlock{e.r.adv.newBody(e.r, h, false), e.r.adv.newBody(e.r, h, false), e.r.adv.newBody(e.r, h, false)}
	proofs := []proofD{validProofFor(e, h, e.tv-5, bs[0]), validProofFor(e, h, e.tv-3, bs[1]), validProofFor(e, h, e.tv-1, bs[2])}
	senders := []primitives.MemberId{e.vds[0].sender, e.vds[1].sender, e.vds[2].sender}
	for k := 0; k < 3; k++ {
		e.vds[order[k]].proof = proofs[k]
		e.vds[order[k]].sender = senders[order[k]]
	}
	e.nv.pp.hash, e.nvBk = hashOfBody(bs[propose].body), bs[propose]
}

func cmdGuards(args []string) int {
	fs := flag.NewFlagSet("guards", flag.ExitOnError)
	outPath := fs.String("out", "guards.ndjson", "")
	seed := fs.Int64("seed", 1, "")
	nRand := fs.Int("rand", 150, "random pairs of deviations per table")
	only := fs.Int("only", -1, "write only this case (replay)")
	fs.Parse(args)
	rnd := newRand(*seed)
	real := newNdjson(*outPath)
	defer real.close()
	null := newNdjson("/dev/null")
	defer null.close()
	out := real
	pick := func(id int) { // cases are generated in a fixed order; a replay writes only the chosen one
		out = real
		if *only >= 0 && id != *only {
			out = null
		}
	}
	stats, tmpl := map[string]int{}, map[string]int{}
	grids := [][]uint64{{1, 1, 1, 1}, {1, 2, 3, 4}, {1, 1, 1, 1, 3}, {2, 1, 2, 1, 2, 1, 2}}
	const h = 1
	runId := 0
	other := func(e *guardEnv) *vBlock { return e.r.adv.newBody(e.r, h, false) }

	// ---------------------------------------------------------------- VIEW_CHANGE with a prepared proof, to the leader of tv
	type vcDev struct {
		name string
		f    func(e *guardEnv)
	}
	vcDevs := []vcDev{
		{"", func(e *guardEnv) {}},
		{"proof_pp_type_prepare", func(e *guardEnv) { e.vd.proof.pp.ht = protocol.LEAN_HELIX_PREPARE }},
		{"proof_p_type_commit", func(e *guardEnv) { e.vd.proof.p.ht = protocol.LEAN_HELIX_COMMIT }},
		{"proof_pp_other_instance", func(e *guardEnv) { e.vd.proof.pp.inst++ }},
		{"proof_p_other_instance", func(e *guardEnv) { e.vd.proof.p.inst++ }},
		{"proof_both_other_instance", func(e *guardEnv) { e.vd.proof.pp.inst++; e.vd.proof.p.inst++ }},
		{"proof_pp_other_height", func(e *guardEnv) { e.vd.proof.pp.h++ }},
		{"proof_p_other_height", func(e *guardEnv) { e.vd.proof.p.h++ }},
		{"proof_both_other_height", func(e *guardEnv) { e.vd.proof.pp.h++; e.vd.proof.p.h++ }},
		{"proof_view_is_target", func(e *guardEnv) {
			e.vd.proof.pp.v, e.vd.proof.p.v = e.tv, e.tv
			e.vd.proof.ppBy = leaderAt(e.cl, h, e.tv)
		}},
		{"proof_p_view_differs", func(e *guardEnv) { e.vd.proof.p.v++ }},
		{"proof_pp_view_later_same_leader", func(e *guardEnv) { e.vd.proof.pp.v += uint64(e.cl.nMembers) }},
		{"proof_p_other_hash", func(e *guardEnv) { e.vd.proof.p.hash = hashOfBody(other(e).body) }},
		{"proof_pp_by_non_leader", func(e *guardEnv) { e.vd.proof.ppBy = leaderAt(e.cl, h, e.vd.proof.pp.v+1) }},
		{"proof_pp_by_outsider", func(e *guardEnv) { e.vd.proof.ppBy = e.cl.ids[e.cl.nMembers] }},
		{"proof_pp_sig_forged", func(e *guardEnv) { e.vd.proof.ppMode = "forged" }},
		{"proof_one_p_sig_forged", func(e *guardEnv) { e.vd.proof.pModes[len(e.vd.proof.pModes)-1] = "forged" }},
		{"proof_leader_among_p_senders", func(e *guardEnv) {
			e.vd.proof.pBy, e.vd.proof.pModes = append(e.vd.proof.pBy, e.vd.proof.ppBy), append(e.vd.proof.pModes, "")
		}},
		{"proof_outsider_among_p_senders", func(e *guardEnv) {
			e.vd.proof.pBy, e.vd.proof.pModes = append(e.vd.proof.pBy, e.cl.ids[e.cl.nMembers]), append(e.vd.proof.pModes, "")
		}},
		{"proof_duplicate_p_sender", func(e *guardEnv) {
			e.vd.proof.pBy, e.vd.proof.pModes = append(e.vd.proof.pBy, e.vd.proof.pBy[0]), append(e.vd.proof.pModes, "")
		}},
		{"proof_one_p_sender_only", func(e *guardEnv) { e.vd.proof.pBy, e.vd.proof.pModes = e.vd.proof.pBy[:1], e.vd.proof.pModes[:1] }},
		{"vote_other_instance", func(e *guardEnv) { e.vd.inst++ }},
		{"vote_other_height", func(e *guardEnv) { e.vd.h++ }},
		{"vote_type_new_view", func(e *guardEnv) { e.vd.ht = protocol.LEAN_HELIX_NEW_VIEW }},
		{"vote_sig_forged", func(e *guardEnv) { e.vd.mode = "forged" }},
		{"everything_other_instance", func(e *guardEnv) { e.vd.inst++; e.vd.proof.pp.inst++; e.vd.proof.p.inst++ }}, // a vote that is genuine in another instance
		{"vote_by_outsider", func(e *guardEnv) { e.vd.sender = e.cl.ids[e.cl.nMembers] }},
		{"vote_for_view_led_by_another", func(e *guardEnv) { e.vd.v++ }},
		{"vote_block_missing", func(e *guardEnv) { e.blk = nil }},
		{"vote_other_block_attached", func(e *guardEnv) { e.blk = other(e) }},
	}
	// cached = true: the message reaches the node BEFORE it starts height 1, waits in the future cache and is handled when the
	// round starts (the same guards must hold on that path; the instance / sender / height filter sits in front of the cache)
	begin := func(r *run, n *cnode) {
		n.sync(nil, nil)
		r.record(n, "start", obj{"k": "-"}, nil)
	}
	vcCase := func(ws []uint64, rotate bool, tv, pv uint64, devs []vcDev, cached bool) {
		probe := newCluster(ws, nil, 0, rotate)
		keep := memberIdx(probe, leaderAt(probe, h, tv)) // the node under test leads the view the vote is for
		probe.close()
		cl := loneCluster(ws, keep, rotate)
		defer cl.close()
		pick(runId)
		r := &run{cl: cl, adv: newAdversary(cl), rnd: rnd, out: out, chain: map[uint64]commitRec{}, maxH: 1, stats: stats, tmpl: tmpl, label: "guards_vc"}
		n := cl.nodes[keep]
		r.emitInit(runId)
		runId++
		if !cached {
			begin(r, n)
		}
		e := &guardEnv{cl: cl, r: r, n: n, h: h, tv: tv}
		e.blk = r.adv.newBody(r, h, false)
		leader := leaderAt(cl, h, pv)
		pr := proofD{present: true, pp: ref(protocol.LEAN_HELIX_PREPREPARE, h, pv, e.blk), ppBy: leader, p: ref(protocol.LEAN_HELIX_PREPARE, h, pv, e.blk)}
		var sender primitives.MemberId
		for i := 0; i < cl.nMembers; i++ {
			if !cl.ids[i].Equal(leader) && i != keep { // the node under test never signed a PREPARE: its signature is not to be had
				pr.pBy, pr.pModes = append(pr.pBy, cl.ids[i]), append(pr.pModes, "")
			}
			if i != keep {
				sender = cl.ids[i]
			}
		}
		e.vd = voteD{ht: protocol.LEAN_HELIX_VIEW_CHANGE, inst: clusterInstance, h: h, v: tv, sender: sender, proof: pr}
		name := ""
		for _, d := range devs {
			d.f(e)
			name += d.name + "+"
		}
		var blk *vBlock = e.blk
		if blk == nil {
			r.deliverTo(n, r.adv.mkVC(e.vd, nil), "deliver", "byz", "guard_vc:"+name)
		} else {
			r.deliverTo(n, r.adv.mkVC(e.vd, blk), "deliver", "byz", "guard_vc:"+name)
		}
		if cached {
			begin(r, n)
		}
	}

	// ---------------------------------------------------------------- NEW_VIEW to a follower
	type nvDev struct {
		name string
		f    func(e *guardEnv)
	}
	nvDevs := []nvDev{
		{"", func(e *guardEnv) {}},
		{"one_vote_other_instance", func(e *guardEnv) { e.vds[0].inst++ }},
		{"all_votes_other_instance", func(e *guardEnv) {
			for i := range e.vds {
				e.vds[i].inst++
			}
		}},
		{"everything_other_instance", func(e *guardEnv) { // a NEW_VIEW that is genuine in another instance
			e.nv.inst++
			e.nv.pp.inst++
			for i := range e.vds {
				e.vds[i].inst++
			}
		}},
		{"one_vote_other_height", func(e *guardEnv) { e.vds[0].h++ }},
		{"one_vote_older_view", func(e *guardEnv) { e.vds[0].v-- }},
		{"one_vote_later_view", func(e *guardEnv) { e.vds[0].v++ }},
		{"one_vote_type_new_view", func(e *guardEnv) { e.vds[0].ht = protocol.LEAN_HELIX_NEW_VIEW }},
		{"one_vote_sig_forged", func(e *guardEnv) { e.vds[0].mode = "forged" }},
		{"one_vote_by_outsider", func(e *guardEnv) { e.vds[0].sender = e.cl.ids[e.cl.nMembers] }},
		{"one_vote_forged_in_the_name_of_the_receiver", func(e *guardEnv) { e.vds[0].sender, e.vds[0].mode = e.n.id, "forged" }},
		{"all_votes_by_outsiders_as_many_as_members", func(e *guardEnv) { // N distinct validly signed votes, none from the committee
			e.vds = nil
			for i := 0; i < e.cl.nMembers; i++ {
				e.vds = append(e.vds, voteD{ht: protocol.LEAN_HELIX_VIEW_CHANGE, inst: clusterInstance, h: h, v: e.tv, sender: e.cl.ids[e.cl.nMembers+i]})
			}
		}},
		{"leader_vote_and_outsiders_as_many_as_members", func(e *guardEnv) {
			e.vds = []voteD{{ht: protocol.LEAN_HELIX_VIEW_CHANGE, inst: clusterInstance, h: h, v: e.tv, sender: e.nv.sender}}
			for i := 0; i < e.cl.nMembers-1; i++ {
				e.vds = append(e.vds, voteD{ht: protocol.LEAN_HELIX_VIEW_CHANGE, inst: clusterInstance, h: h, v: e.tv, sender: e.cl.ids[e.cl.nMembers+i]})
			}
		}},
		{"duplicate_voter", func(e *guardEnv) { e.vds[0].sender = e.vds[1].sender }},
		{"header_other_height", func(e *guardEnv) { e.nv.h++ }},
		{"header_sig_forged", func(e *guardEnv) { e.nv.mode = "forged" }},
		{"sender_not_leader", func(e *guardEnv) { // signed by another member than the leader of the view (not by the node under test: its own messages are filtered)
			e.nv.sender = leaderAt(e.cl, h, e.tv+1)
			if e.nv.sender.Equal(e.n.id) {
				e.nv.sender = leaderAt(e.cl, h, e.tv+2)
			}
			e.nv.ppBy = e.nv.sender
		}},
		{"header_type_view_change", func(e *guardEnv) { e.nv.ht = protocol.LEAN_HELIX_VIEW_CHANGE }},
		{"header_type_preprepare", func(e *guardEnv) { e.nv.ht = protocol.LEAN_HELIX_PREPREPARE }},
		{"proposal_by_another_member", func(e *guardEnv) { e.nv.ppBy = leaderAt(e.cl, h, e.tv+1) }},
		{"proposal_sig_forged", func(e *guardEnv) { e.nv.ppMode = "forged" }},
		{"proposal_other_view", func(e *guardEnv) { e.nv.pp.v++ }},
		{"proposal_other_height", func(e *guardEnv) { e.nv.pp.h++ }},
		{"proposal_other_instance", func(e *guardEnv) { e.nv.pp.inst++ }},
		{"proposal_type_prepare", func(e *guardEnv) { e.nv.pp.ht = protocol.LEAN_HELIX_PREPARE }},
		{"proposal_hash_of_another_block", func(e *guardEnv) { e.nv.pp.hash = hashOfBody(other(e).body) }},
		{"block_missing", func(e *guardEnv) { e.nvBk = nil }},
		{"block_says_it_is_of_the_next_height", func(e *guardEnv) {
			if e.nvBk != nil {
				e.nvBk = &vBlock{height: h + 1, body: e.nvBk.body}
			}
		}}, // signed hash, foreign height: no consumer accepts it for h
		// a vote with a VALID prepared proof of view tv-1 (signed by that view's leader and by the other members the adversary holds);
		// the NEW_VIEW re-proposes the certified block: acceptable.  Then one thing wrong about the re-proposal.
		{"proven_vote", func(e *guardEnv) { provenVote(e, h) }},
		{"proven_vote_block_missing", func(e *guardEnv) { provenVote(e, h); e.nvBk = nil }},
		{"proven_vote_another_block_attached", func(e *guardEnv) { provenVote(e, h); e.nvBk = other(e) }},
		{"proven_vote_proposal_for_another_block", func(e *guardEnv) {
			provenVote(e, h)
			b := other(e)
			e.nv.pp.hash, e.nvBk = hashOfBody(b.body), b
		}},
		{"proven_vote_proof_without_quorum", func(e *guardEnv) {
			provenVote(e, h)
			e.vds[0].proof.pBy, e.vds[0].proof.pModes = e.vds[0].proof.pBy[:1], e.vds[0].proof.pModes[:1]
		}},
		// an OLDER lock re-proposed: one vote proves B1 in view tv-5 (when that exists: tv >= 6), one proves B3 in view tv-3, and a third
		// vote carries a garbage proof whose two block references name different views (PREPREPARE ref: tv-1, PREPARE ref: 0).  The
		// NEW_VIEW proposes B1.  Whatever the order of the votes, it must not be followed (the highest VALID proof is B3's).
		{"older_lock_shielded_by_split_views_proof_order_012", func(e *guardEnv) { shieldedOlderLock(e, h, [3]int{0, 1, 2}) }},
		{"older_lock_shielded_by_split_views_proof_order_021", func(e *guardEnv) { shieldedOlderLock(e, h, [3]int{0, 2, 1}) }},
		{"older_lock_shielded_by_split_views_proof_order_102", func(e *guardEnv) { shieldedOlderLock(e, h, [3]int{1, 0, 2}) }},
		{"older_lock_shielded_by_split_views_proof_order_120", func(e *guardEnv) { shieldedOlderLock(e, h, [3]int{1, 2, 0}) }},
		{"older_lock_shielded_by_split_views_proof_order_201", func(e *guardEnv) { shieldedOlderLock(e, h, [3]int{2, 0, 1}) }},
		{"older_lock_shielded_by_split_views_proof_order_210", func(e *guardEnv) { shieldedOlderLock(e, h, [3]int{2, 1, 0}) }},
		{"three_locks_order_012_proposes_oldest", func(e *guardEnv) { threeLocks(e, h, [3]int{0, 1, 2}, 0) }},
		{"three_locks_order_012_proposes_middle", func(e *guardEnv) { threeLocks(e, h, [3]int{0, 1, 2}, 1) }},
		{"three_locks_order_012_proposes_newest", func(e *guardEnv) { threeLocks(e, h, [3]int{0, 1, 2}, 2) }},
		{"three_locks_order_021_proposes_oldest", func(e *guardEnv) { threeLocks(e, h, [3]int{0, 2, 1}, 0) }},
		{"three_locks_order_021_proposes_middle", func(e *guardEnv) { threeLocks(e, h, [3]int{0, 2, 1}, 1) }},
		{"three_locks_order_021_proposes_newest", func(e *guardEnv) { threeLocks(e, h, [3]int{0, 2, 1}, 2) }},
		{"three_locks_order_102_proposes_oldest", func(e *guardEnv) { threeLocks(e, h, [3]int{1, 0, 2}, 0) }},
		{"three_locks_order_102_proposes_middle", func(e *guardEnv) { threeLocks(e, h, [3]int{1, 0, 2}, 1) }},
		{"three_locks_order_102_proposes_newest", func(e *guardEnv) { threeLocks(e, h, [3]int{1, 0, 2}, 2) }},
		{"three_locks_order_120_proposes_oldest", func(e *guardEnv) { threeLocks(e, h, [3]int{1, 2, 0}, 0) }},
		{"three_locks_order_120_proposes_middle", func(e *guardEnv) { threeLocks(e, h, [3]int{1, 2, 0}, 1) }},
		{"three_locks_order_120_proposes_newest", func(e *guardEnv) { threeLocks(e, h, [3]int{1, 2, 0}, 2) }},
		{"three_locks_order_201_proposes_oldest", func(e *guardEnv) { threeLocks(e, h, [3]int{2, 0, 1}, 0) }},
		{"three_locks_order_201_proposes_middle", func(e *guardEnv) { threeLocks(e, h, [3]int{2, 0, 1}, 1) }},
		{"three_locks_order_201_proposes_newest", func(e *guardEnv) { threeLocks(e, h, [3]int{2, 0, 1}, 2) }},
		{"three_locks_order_210_proposes_oldest", func(e *guardEnv) { threeLocks(e, h, [3]int{2, 1, 0}, 0) }},
		{"three_locks_order_210_proposes_middle", func(e *guardEnv) { threeLocks(e, h, [3]int{2, 1, 0}, 1) }},
		{"three_locks_order_210_proposes_newest", func(e *guardEnv) { threeLocks(e, h, [3]int{2, 1, 0}, 2) }},
		{"one_vote_with_proof_of_other_instance", func(e *guardEnv) { // a lock "proof" of another instance must not steer the proposal
			b := other(e)
			pv := e.tv - 1
			leader := leaderAt(e.cl, h, pv)
			pr := proofD{present: true, pp: ref(protocol.LEAN_HELIX_PREPREPARE, h, pv, b), ppBy: leader, p: ref(protocol.LEAN_HELIX_PREPARE, h, pv, b)}
			pr.pp.inst, pr.p.inst = clusterInstance+1, clusterInstance+1
			for i := 0; i < e.cl.nMembers; i++ {
				if !e.cl.ids[i].Equal(leader) && e.cl.byz[i] {
					pr.pBy, pr.pModes = append(pr.pBy, e.cl.ids[i]), append(pr.pModes, "")
				}
			}
			e.vds[0].proof = pr
			e.nv.pp.hash, e.nvBk = hashOfBody(b.body), b
		}},
	}
	nvCase := func(ws []uint64, rotate bool, tv uint64, devs []nvDev, cached bool) {
		probe := newCluster(ws, nil, 0, rotate)
		lead := memberIdx(probe, leaderAt(probe, h, tv))
		probe.close()
		keep := (lead + 1) % len(ws) // a follower
		cl := loneCluster(ws, keep, rotate)
		defer cl.close()
		pick(runId)
		r := &run{cl: cl, adv: newAdversary(cl), rnd: rnd, out: out, chain: map[uint64]commitRec{}, maxH: 1, stats: stats, tmpl: tmpl, label: "guards_nv"}
		n := cl.nodes[keep]
		r.emitInit(runId)
		runId++
		if !cached {
			begin(r, n)
		}
		e := &guardEnv{cl: cl, r: r, n: n, h: h, tv: tv}
		e.nvBk = r.adv.newBody(r, h, false)
		for i := 0; i < cl.nMembers; i++ {
			if i != keep {
				e.vds = append(e.vds, voteD{ht: protocol.LEAN_HELIX_VIEW_CHANGE, inst: clusterInstance, h: h, v: tv, sender: cl.ids[i]})
			}
		}
		e.nv = nvD{inst: clusterInstance, h: h, v: tv, sender: cl.ids[lead], pp: ref(protocol.LEAN_HELIX_PREPREPARE, h, tv, e.nvBk), ppBy: cl.ids[lead]}
		name := ""
		for _, d := range devs {
			d.f(e)
			name += d.name + "+"
		}
		for _, vd := range e.vds {
			e.nv.votes = append(e.nv.votes, r.adv.voteBuilder(vd))
		}
		if e.nvBk == nil {
			r.deliverTo(n, r.adv.mkNV(e.nv, nil), "deliver", "byz", "guard_nv:"+name)
		} else {
			r.deliverTo(n, r.adv.mkNV(e.nv, e.nvBk), "deliver", "byz", "guard_nv:"+name)
		}
		if cached {
			begin(r, n)
		}
	}

	// ---------------------------------------------------------------- PREPREPARE / PREPARE / COMMIT to a follower in view pre
	type simple struct {
		kind   string
		rf     refD
		sender primitives.MemberId
		mode   string
		share  string
		blk    *vBlock
		noBlk  bool
		padded bool
	}
	type sDev struct {
		name  string
		kinds string
		f     func(e *guardEnv, m *simple)
	}
	sDevs := []sDev{
		{"", "PP P C", func(e *guardEnv, m *simple) {}},
		{"sig_forged", "PP P C", func(e *guardEnv, m *simple) { m.mode = "forged" }},
		{"sig_empty", "PP P C", func(e *guardEnv, m *simple) { m.mode = "empty" }},
		{"by_outsider", "PP P C", func(e *guardEnv, m *simple) { m.sender = e.cl.ids[e.cl.nMembers] }},
		{"other_instance", "PP P C", func(e *guardEnv, m *simple) { m.rf.inst++ }},
		{"next_height", "PP P C", func(e *guardEnv, m *simple) { m.rf.h++ }},
		{"far_height", "PP P C", func(e *guardEnv, m *simple) { m.rf.h += 7 }},
		{"height_zero", "PP P C", func(e *guardEnv, m *simple) { m.rf.h = 0 }},
		{"header_type_prepare", "PP C", func(e *guardEnv, m *simple) { m.rf.ht = protocol.LEAN_HELIX_PREPARE }},
		{"header_type_commit", "PP P", func(e *guardEnv, m *simple) { m.rf.ht = protocol.LEAN_HELIX_COMMIT }},
		{"header_type_preprepare", "P C", func(e *guardEnv, m *simple) { m.rf.ht = protocol.LEAN_HELIX_PREPREPARE }},
		{"header_type_view_change", "PP P C", func(e *guardEnv, m *simple) { m.rf.ht = protocol.LEAN_HELIX_VIEW_CHANGE }},
		{"next_view", "PP P C", func(e *guardEnv, m *simple) {
			m.rf.v++
			if m.kind == "PP" {
				m.sender = leaderAt(e.cl, h, m.rf.v)
			}
		}},
		{"older_view", "PP P C", func(e *guardEnv, m *simple) {
			if m.rf.v > 0 {
				m.rf.v--
				if m.kind == "PP" {
					m.sender = leaderAt(e.cl, h, m.rf.v)
				}
			}
		}},
		{"pp_by_non_leader", "PP", func(e *guardEnv, m *simple) { m.sender = leaderAt(e.cl, h, m.rf.v+1) }},
		{"p_by_the_leader", "P", func(e *guardEnv, m *simple) { m.sender = leaderAt(e.cl, h, m.rf.v) }},
		{"block_missing", "PP", func(e *guardEnv, m *simple) { m.noBlk = true }},
		{"block_of_another_hash", "PP", func(e *guardEnv, m *simple) { m.blk = e.r.adv.newBody(e.r, h, false) }},
		{"block_consumer_rejects", "PP", func(e *guardEnv, m *simple) {
			m.blk = e.r.adv.newBody(e.r, h, true)
			m.rf.hash = hashOfBody(m.blk.body)
		}},
		{"hash_empty", "P C", func(e *guardEnv, m *simple) { m.rf.hash = primitives.BlockHash{} }},
		{"share_forged", "C", func(e *guardEnv, m *simple) { m.share = "forged" }},
		{"share_of_another_member", "C", func(e *guardEnv, m *simple) { m.share = "other" }},
		{"header_noncanonical", "PP P C", func(e *guardEnv, m *simple) { m.padded = true }},
	}
	simpleCase := func(ws []uint64, rotate bool, kind string, pre int, devs []sDev, cached bool) {
		probe := newCluster(ws, nil, 0, rotate)
		lead := memberIdx(probe, leaderAt(probe, h, uint64(pre)))
		probe.close()
		keep := (lead + 1) % len(ws) // a follower of the view the node will be in
		cl := loneCluster(ws, keep, rotate)
		defer cl.close()
		pick(runId)
		r := &run{cl: cl, adv: newAdversary(cl), rnd: rnd, out: out, chain: map[uint64]commitRec{}, maxH: 1, stats: stats, tmpl: tmpl, label: "guards_" + kind}
		n := cl.nodes[keep]
		r.emitInit(runId)
		runId++
		if !cached {
			begin(r, n)
		}
		for k := 0; k < pre && !cached; k++ {
			if n.timeout() {
				r.record(n, "timeout", obj{"k": "-"}, nil)
			}
		}
		e := &guardEnv{cl: cl, r: r, n: n, h: h, tv: uint64(pre)}
		blk := r.adv.newBody(r, h, false)
		m := &simple{kind: kind, blk: blk}
		other := cl.ids[(keep+1)%len(ws)]
		if other.Equal(cl.ids[lead]) {
			other = cl.ids[(keep+2)%len(ws)]
		}
		switch kind {
		case "PP":
			m.rf, m.sender = ref(protocol.LEAN_HELIX_PREPREPARE, h, uint64(pre), blk), cl.ids[lead]
		case "P":
			m.rf, m.sender = ref(protocol.LEAN_HELIX_PREPARE, h, uint64(pre), blk), other
		case "C":
			m.rf, m.sender = ref(protocol.LEAN_HELIX_COMMIT, h, uint64(pre), blk), other
		}
		name := ""
		for _, d := range devs {
			d.f(e, m)
			name += d.name + "+"
		}
		var raw *interfaces.ConsensusRawMessage
		switch {
		case m.padded && kind == "PP":
			raw = r.adv.mkPaddedPP(m.rf, m.sender, m.blk)
		case m.padded && kind == "P":
			raw = r.adv.mkPaddedP(m.rf, m.sender)
		case m.padded && kind == "C":
			raw = r.adv.mkPaddedC(m.rf, m.sender)
		}
		switch kind {
		case "PP":
			if raw != nil {
				break
			}
			if m.noBlk {
				raw = r.adv.mkPP(m.rf, m.sender, m.mode, nil)
			} else {
				raw = r.adv.mkPP(m.rf, m.sender, m.mode, m.blk)
			}
		case "P":
			if raw == nil {
				raw = r.adv.mkP(m.rf, m.sender, m.mode)
			}
		case "C":
			if raw == nil {
				raw = r.adv.mkC(m.rf, m.sender, m.mode, m.share)
			}
		}
		r.deliverTo(n, raw, "deliver", "byz", "guard_"+kind+":"+name)
		if cached {
			begin(r, n)
		}
	}

	for gi, ws := range grids {
		rotate := gi%2 == 1
		for _, kind := range []string{"PP", "P", "C"} {
			for _, pre := range []int{0, 2} {
				if kind == "PP" && pre > 0 {
					continue // a standalone PREPREPARE in a view above 0 is finding H2
				}
				for _, d := range sDevs {
					if strings.Contains(" "+d.kinds+" ", " "+kind+" ") {
						simpleCase(ws, rotate, kind, pre, []sDev{d}, false)
						if pre == 0 {
							simpleCase(ws, rotate, kind, pre, []sDev{d}, true)
						}
					}
				}
			}
		}
		for _, tvpv := range [][2]uint64{{1, 0}, {2, 1}, {5, 3}} {
			for _, d := range vcDevs {
				vcCase(ws, rotate, tvpv[0], tvpv[1], []vcDev{d}, false)
				if tvpv[0] == 1 {
					vcCase(ws, rotate, tvpv[0], tvpv[1], []vcDev{d}, true)
				}
			}
		}
		for _, tv := range []uint64{1, 2, 6} {
			for _, d := range nvDevs {
				nvCase(ws, rotate, tv, []nvDev{d}, false)
				if tv == 1 {
					nvCase(ws, rotate, tv, []nvDev{d}, true)
				}
			}
		}
	}
	for i := 0; i < *nRand; i++ {
		ws := grids[rnd.Intn(len(grids))]
		tv := uint64(1 + rnd.Intn(5))
		vcCase(ws, rnd.Intn(2) == 0, tv, uint64(rnd.Intn(int(tv))), []vcDev{vcDevs[rnd.Intn(len(vcDevs))], vcDevs[rnd.Intn(len(vcDevs))]}, rnd.Intn(4) == 0)
		nvCase(ws, rnd.Intn(2) == 0, tv, []nvDev{nvDevs[rnd.Intn(len(nvDevs))], nvDevs[rnd.Intn(len(nvDevs))]}, rnd.Intn(4) == 0)
	}
	fmt.Printf("lines=%d cases=%d\n", real.n, runId)
	return 0
}
