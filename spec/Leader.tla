------------------------------- MODULE Leader -------------------------------
(* C18: the leader of view v in an ordered committee of n members is member (v mod n). *)
EXTENDS Integers, FiniteSets
LeaderIndex(v, n) == v % n
\* any n consecutive views starting at s give every index exactly once
RoundRobin(s, n) == /\ {LeaderIndex(s + k, n) : k \in 0..(n - 1)} = 0..(n - 1)
                    /\ \A j, k \in 0..(n - 1) : j # k => LeaderIndex(s + j, n) # LeaderIndex(s + k, n)
=============================================================================
