CONSTANTS MaxView = 2 ByzBudget = 6 Blocks <- cBlocks Hdr <- cHdr Dev = {} Ablate = {}
INIT Init
NEXT Next
CHECK_DEADLOCK FALSE
