"""C20 wire round trip.  Wire.tla is the shape grammar of what the factory can build (5 types x block x own
proof x prepare senders x votes x votes-with-proof); TLC enumerates the shapes; for every shape the harness
draws field values (64-bit classes and random; ids/hashes/signatures of length 0,1,32,255,256 and random),
builds the message with the real MessageFactory, converts it to a raw message and parses it back twice, and
TLC checks (Trace_Wire) that the full accessor dump is unchanged, that parsing is deterministic and that every
signature that verified before still verifies; likewise for block proofs generated from commit messages."""
import json, os, shutil
import vlib
from props import tables

PID = "C20"


def _classify(line, tags):
    return {"tags": tags, "kind": line["shape"]["k"]}, "round trip of a %s message (shape %s): %s" % (
        line["shape"]["k"], json.dumps(line["shape"]), ",".join(tags))


def run(tier, seed):
    rep = vlib.Report(PID, tier, seed)
    rep.assumptions = ["fields are compared through the accessors of the generated readers (bytes no accessor exposes are invisible)",
                       "signature values are arbitrary bytes of the drawn length (PRF key manager)"]
    r = vlib.tlc_must_pass("MC_Wire", "MC_Wire.cfg", timeout=300)
    rep.add_tlc(r, "Wire.tla shape grammar (MaxVotes=3, MaxPrep=3): one state per shape")
    nshapes = r.distinct
    args = ["-seed", seed] + (["-fills", 6, "-big", 50, "-proofs", 200] if tier == "quick" else ["-fills", 300, "-big", 3000, "-proofs", 8000])
    lines, bad = tables.run_table(rep, PID, "wire", args, "Trace_Wire", "Trace_Wire.cfg", _classify,
                                  sample_keys=["shape", "vb", "va"], distinct_key=lambda e: [e["shape"], e["before"]])
    covered = {json.dumps(e["shape"], sort_keys=True) for e in lines if not e["big"]}
    rep.extra["shapes_in_grammar"] = nshapes
    rep.extra["shapes_covered"] = len(covered)
    if len(covered) != nshapes:
        raise vlib.Inconclusive("harness covered %d shapes, grammar has %d" % (len(covered), nshapes))
    rep.exhaustive = False
    # what real nodes re-embed (votes in a NEW_VIEW, PREPAREs in a prepared proof) still verifies when re-read from the bytes sent
    from props import cluster
    rep.assumptions += cluster.ASSUME
    cluster.judge(rep, PID, tier, 0, args={"scenarios": True, "seed": 0}, what="directed schedules (attack library): re-embedded signed parts")
    a = dict(cluster.gen_args(tier, seed))
    a["runs"] = a["runs"] // 3
    cluster.judge(rep, PID, tier, seed, args=a)
    return rep.finish()


def replay(path, seed):
    # a C20 violation is deterministic in (seed): re-run the quick tier with the recorded seed
    payload = json.load(open(path))
    if payload.get("kind") == "cluster-run":
        from props import cluster
        return cluster.simple_replay(PID, path, seed)
    return run("quick", payload.get("seed", seed))
