package main

// The real two-goroutine runtime (MainLoop.Run: main loop + worker loop, real state/contexts, real term)
// of ONE node under a randomised driver.  The three other committee members are played by the harness
// (it holds their keys and feeds the traffic that lets the node decide heights).  Every SPI call of the
// node can be made to block until the driver releases it or until its context is cancelled.
// Events are stamped with one global atomic sequence number at the moment they are logged.

import (
	"context"
	"errors"
	"flag"
	"fmt"
	"math"
	"os"
	"runtime"
	"strings"
	"sync"
	"sync/atomic"
	"time"

	leanhelix "github.com/orbs-network/lean-helix-go"
	"github.com/orbs-network/lean-helix-go/services/interfaces"
	"github.com/orbs-network/lean-helix-go/services/randomseed"
	"github.com/orbs-network/lean-helix-go/spec/types/go/primitives"
	"github.com/orbs-network/lean-helix-go/spec/types/go/protocol"
	"github.com/orbs-network/lean-helix-go/state"
)

func init() { register("runtime", cmdRuntime) }

type rtEvent = obj

type blockedCall struct {
	id       int
	kind     string
	h, v     int
	release  chan struct{}
	untilCtx bool // waits for its context only; the driver never releases it
}

type rejectedProposal struct {
	h, v uint64
	blk  *vBlock
}

type rt struct {
	t0            time.Time          // start of the run (monotonic reference of the events' "t")
	rejectedSeen  []rejectedProposal // proposals the consumer rejected: the (Byzantine) peers vote for them all the same
	panicAtCommit int64              // the n-th commit callback of the run panics (0: never)
	lingerMs      int32
	slowSeq       int64
	rejectSalt    int
	rejecting     int32 // some of the peers' proposals are rejected by the consumer (off during the final probes)
	cl            *cluster
	adv           *adversary
	main          *leanhelix.MainLoop
	me            primitives.MemberId

	hung   int32 // set once an API call was seen blocking
	seq    int64
	mu     sync.Mutex
	events []rtEvent

	// gating policy (set by the driver, read by SPI fakes)
	gateMu    sync.Mutex
	blockProb map[string]int // kind -> percent of calls that block
	ctxOnly   int            // percent of blocking calls that wait for their context only
	blocked   map[int]*blockedCall
	nextCall  int
	rndMu     sync.Mutex
	rnd       interface{ Intn(int) int }

	elecCh      chan *interfaces.ElectionTrigger
	regMu       sync.Mutex
	regH        uint64
	regV        uint64
	regCb       func(primitives.BlockHeight, primitives.View, interfaces.OnElectionCallback)
	sends       []sendRec
	sendMu      sync.Mutex
	propSeq     int64
	failCommit  int32 // percent of commit callbacks that return an error
	commitCount int64
	maxOkSync   int64
	proofs      map[int][]byte // height -> proof the node committed with (its next term's seed derives from it)
}

func (r *rt) log(ev string, f obj) {
	e := obj{"ev": ev}
	for k, v := range f {
		e[k] = v
	}
	r.mu.Lock()
	e["seq"] = atomic.AddInt64(&r.seq, 1)
	e["t"] = int(time.Since(r.t0) / time.Microsecond) // monotonic clock, microseconds since the run began (read under the log's lock)
	r.events = append(r.events, e)
	r.mu.Unlock()
}

// logf: fields are computed inside the critical section that assigns the sequence number, so that what
// they report (e.g. "this context is already cancelled") is consistent with the order of the log.
func (r *rt) logf(ev string, f func() obj) {
	r.mu.Lock()
	e := obj{"ev": ev}
	for k, v := range f() {
		e[k] = v
	}
	e["seq"] = atomic.AddInt64(&r.seq, 1)
	e["t"] = int(time.Since(r.t0) / time.Microsecond)
	r.events = append(r.events, e)
	r.mu.Unlock()
}

func (r *rt) intn(n int) int {
	r.rndMu.Lock()
	defer r.rndMu.Unlock()
	return r.rnd.Intn(n)
}

// gate: maybe block the calling SPI until released or until ctx is done. Returns ctx.Err() != nil at return.
func (r *rt) gate(ctx context.Context, kind string, h, v int) bool {
	return r.gateF(ctx, kind, h, v, false)
}

// gateF: force = the call blocks whatever the run's probabilities say (released by the driver like any other)
func (r *rt) gateF(ctx context.Context, kind string, h, v int, force bool) bool {
	r.gateMu.Lock()
	r.nextCall++
	id := r.nextCall
	block := force || r.intn(100) < r.blockProb[kind]
	// worst-case consumer: a call about a height that an accepted sync has already left behind waits for its context only
	// (the commit callback included: a sync with the block of the height being committed tells the node to leave it)
	behind := int64(h) <= atomic.LoadInt64(&r.maxOkSync) && r.intn(2) == 0
	var bc *blockedCall
	if block || behind {
		block = true
		bc = &blockedCall{id: id, kind: kind, h: h, v: v, release: make(chan struct{}), untilCtx: behind || r.intn(100) < r.ctxOnly}
		r.blocked[id] = bc
	}
	r.gateMu.Unlock()
	r.logf("spi.enter", func() obj {
		return obj{"kind": kind, "h": h, "v": v, "call": id, "dead": ctx.Err() != nil, "blocks": block, "ctxonly": block && bc.untilCtx}
	})
	if block {
		select {
		case <-bc.release:
		case <-ctx.Done():
			r.log("spi.done_seen", obj{"kind": kind, "h": h, "v": v, "call": id})
			if ms := atomic.LoadInt32(&r.lingerMs); ms > 0 {
				time.Sleep(time.Duration(ms) * time.Millisecond)
			} else if linger := r.intn(8); linger > 4 { // a consumer that takes a moment to unwind after cancellation
				time.Sleep(time.Duration(linger) * time.Millisecond)
			}
		}
		r.gateMu.Lock()
		delete(r.blocked, id)
		r.gateMu.Unlock()
	}
	dead := false
	r.logf("spi.leave", func() obj {
		dead = ctx.Err() != nil
		return obj{"kind": kind, "h": h, "v": v, "call": id, "dead": dead}
	})
	return dead
}

// --- SPIs of the node under test
func (r *rt) SendConsensusMessage(ctx context.Context, recipients []primitives.MemberId, message *interfaces.ConsensusRawMessage) error {
	a := r.cl.msgAbs(message)
	x := a["x"]
	if a["k"] == "NV" {
		x = a["pp"].(obj)["x"]
	}
	r.sendMu.Lock()
	r.sends = append(r.sends, sendRec{to: recipients, raw: message})
	r.sendMu.Unlock()
	r.log("send", obj{"kind": a["k"], "h": a["h"], "v": a["v"], "x": fmt.Sprint(x), "blk": fmt.Sprint(a["blk"])})
	return nil
}
func (r *rt) MyMemberId() primitives.MemberId { return r.me }
func (r *rt) RequestOrderedCommittee(ctx context.Context, blockHeight primitives.BlockHeight, randomSeed uint64, prevBlockReferenceTime primitives.TimestampSeconds) ([]interfaces.CommitteeMember, error) {
	if r.gate(ctx, "committee", int(blockHeight), 9) {
		return nil, context.Canceled
	}
	return r.cl.committeeAt(uint64(blockHeight)), nil
}
func (r *rt) RequestCommitteeForBlockProof(ctx context.Context, blockHeight primitives.BlockHeight, prevBlockReferenceTime primitives.TimestampSeconds) ([]interfaces.CommitteeMember, error) {
	return r.cl.committeeAt(uint64(blockHeight)), nil
}
func (r *rt) RequestNewBlockProposal(ctx context.Context, blockHeight primitives.BlockHeight, memberId primitives.MemberId, prevBlock interfaces.Block) (interfaces.Block, primitives.BlockHash) {
	v := int(absNum(uint64(r.main.State().View())))
	n := atomic.AddInt64(&r.propSeq, 1)
	body := fmt.Sprintf("own.h%d.v%d.%d", uint64(blockHeight), v, n)
	r.cl.addBody(body)
	dead := r.gate(ctx, "propose", int(blockHeight), v)
	r.log("proposal.made", obj{"blk": body, "h": int(blockHeight), "v": v, "dead": dead})
	return &vBlock{height: uint64(blockHeight), body: body}, hashOfBody(body)
}
func bodyView(body string) int {
	var h, v, k int
	if _, err := fmt.Sscanf(strings.TrimPrefix(body, "X"), "peer.h%d.v%d.%d", &h, &v, &k); err == nil {
		return v
	}
	return 0
}
func (r *rt) ValidateBlockProposal(ctx context.Context, blockHeight primitives.BlockHeight, memberId primitives.MemberId, block interfaces.Block, blockHash primitives.BlockHash, prevBlock interfaces.Block) error {
	// the validation of a proposal that is going to be rejected takes its time (every other one), so that elections and syncs
	// arrive while it runs
	slow := strings.HasPrefix(blockName(block), "X") && atomic.AddInt64(&r.slowSeq, 1)%2 == 0
	r.gateF(ctx, "validate", int(blockHeight), bodyView(blockName(block)), slow)
	if strings.HasPrefix(blockName(block), "X") { // the consumer's verdict does not depend on whether the call was interrupted
		r.log("validate.rejected", obj{"blk": blockName(block), "h": int(blockHeight)})
		if vb, ok := block.(*vBlock); ok {
			r.gateMu.Lock()
			r.rejectedSeen = append(r.rejectedSeen, rejectedProposal{h: uint64(blockHeight), v: uint64(bodyView(vb.body)), blk: vb})
			r.gateMu.Unlock()
		}
		return errors.New("consumer rejects the proposal")
	}
	return nil
}
func (r *rt) ValidateBlockCommitment(blockHeight primitives.BlockHeight, block interfaces.Block, blockHash primitives.BlockHash) bool {
	vb, ok := block.(*vBlock)
	return ok && vb != nil && vb.height == uint64(blockHeight) && string(hashOfBody(vb.body)) == string(blockHash)
}
func (r *rt) onCommit(ctx context.Context, block interfaces.Block, blockProof []byte) error {
	h := int(block.Height())
	r.sendMu.Lock()
	r.proofs[h] = append([]byte{}, blockProof...)
	r.sendMu.Unlock()
	n := atomic.AddInt64(&r.commitCount, 1)
	r.log("cb.commit", obj{"h": h, "blk": blockName(block)})
	if r.panicAtCommit > 0 && n == r.panicAtCommit { // the consumer's own code crashes inside the callback (once): the library's
		r.log("consumer.panic", obj{"h": h}) // supervisor restarts the worker loop; the height has been handed over all the same
		panic("verif: the consumer's commit callback panics")
	}
	dead := r.gate(ctx, "commit", h, 9)
	if dead || r.intn(100) < int(atomic.LoadInt32(&r.failCommit)) {
		r.log("cb.commit.failed", obj{"h": h})
		return context.Canceled
	}
	return nil
}
func (r *rt) onNewRound(ctx context.Context, newHeight primitives.BlockHeight, prevBlock interfaces.Block, canBeFirstLeader bool) {
	r.log("cb.round", obj{"h": int(newHeight), "first": canBeFirstLeader})
	r.gateMu.Lock()
	hold := r.blockProb["round"] > 0
	r.gateMu.Unlock()
	if hold { // the consumer takes its time in the new-round callback (the new term exists, its election timer is armed)
		r.gate(ctx, "round", int(newHeight), 0)
	}
}

// --- election scheduler fake: the driver fires triggers into the main loop
func (r *rt) RegisterOnElection(blockHeight primitives.BlockHeight, view primitives.View, cb func(primitives.BlockHeight, primitives.View, interfaces.OnElectionCallback)) {
	r.regMu.Lock()
	r.regH, r.regV, r.regCb = uint64(blockHeight), uint64(view), cb
	r.regMu.Unlock()
	r.log("timer.armed", obj{"h": absNum(uint64(blockHeight)), "v": absNum(uint64(view))})
}
func (r *rt) ElectionChannel() chan *interfaces.ElectionTrigger { return r.elecCh }
func (r *rt) CalcTimeout(view primitives.View) time.Duration    { return time.Millisecond }
func (r *rt) Stop() {
	r.regMu.Lock()
	r.regCb = nil
	r.regMu.Unlock()
	r.log("timer.stopped", nil)
}

func (r *rt) hvAbs() (int, int) {
	hv := r.main.State().HeightView()
	return absNum(uint64(hv.Height())), absNum(uint64(hv.View()))
}

func (r *rt) sample(obs string) {
	h, v := r.hvAbs()
	r.log("sample", obj{"obs": obs, "h": h, "v": v})
}

// ---------------------------------------------------------------- the peers (played by the harness)

func (r *rt) peerBlock(h uint64, v uint64) *vBlock {
	body := fmt.Sprintf("peer.h%d.v%d.0", h, v)
	if atomic.LoadInt32(&r.rejecting) != 0 && (h*7+v*5+uint64(r.rejectSalt))%3 == 0 { // a proposal the node's consumer rejects (C04)
		body = "X" + body
	}
	r.cl.addBody(body)
	return &vBlock{height: h, body: body}
}

// proposalOfNode: what the node itself proposed for (h, v), if it did (PP or NV seen in its sends)
func (r *rt) proposalOfNode(h, v uint64) (*vBlock, bool) {
	r.sendMu.Lock()
	defer r.sendMu.Unlock()
	for _, s := range r.sends {
		m := interfaces.ToConsensusMessage(s.raw)
		switch x := m.(type) {
		case *interfaces.PreprepareMessage:
			if uint64(x.BlockHeight()) == h && uint64(x.View()) == v {
				vb, _ := x.Block().(*vBlock)
				return vb, vb != nil
			}
		case *interfaces.NewViewMessage:
			if uint64(x.BlockHeight()) == h && uint64(x.View()) == v {
				vb, _ := x.Block().(*vBlock)
				return vb, vb != nil
			}
		}
	}
	return nil, false
}

func (r *rt) deliver(raw *interfaces.ConsensusRawMessage, what string) {
	ctx, cancel := context.WithTimeout(context.Background(), 2*time.Second)
	defer cancel()
	t0 := time.Now()
	r.main.HandleConsensusMessage(ctx, raw)
	if ctx.Err() != nil {
		r.log("api.msg.blocked", obj{"what": what, "ms": int(time.Since(t0) / time.Millisecond)})
		atomic.StoreInt32(&r.hung, 1)
	}
}

// traffic: one random piece of what the peers would send for the node's current (height, view)
func (r *rt) traffic() {
	hvv := r.main.State().HeightView()
	h, v := uint64(hvv.Height()), uint64(hvv.View())
	if h == 0 || v > 1000 {
		return
	}
	// the node leads the NEXT view: its peers' votes for it may arrive before its own timer fires (elected ahead of its timer:
	// it jumps to that view and proposes there, with the context of THAT view)
	if r.leaderIdx(h, v+1) == 0 && r.intn(4) == 0 {
		for i := 1; i < r.cl.nMembers; i++ {
			r.deliver(r.adv.mkVC(voteD{ht: protocol.LEAN_HELIX_VIEW_CHANGE, inst: clusterInstance, h: h, v: v + 1, sender: r.cl.ids[i]}, nil), "VC")
		}
		return
	}
	leaderIdx := r.leaderIdx(h, v)
	var blk *vBlock
	if leaderIdx == 0 {
		b, ok := r.proposalOfNode(h, v)
		if !ok {
			if v > 0 { // the node leads this view: give it votes
				for i := 1; i < r.cl.nMembers; i++ {
					r.deliver(r.adv.mkVC(voteD{ht: protocol.LEAN_HELIX_VIEW_CHANGE, inst: clusterInstance, h: h, v: v, sender: r.cl.ids[i]}, nil), "VC")
				}
			}
			return
		}
		blk = b
	} else {
		blk = r.peerBlock(h, v)
		leader := r.cl.ids[leaderIdx]
		if v == 0 {
			r.deliver(r.adv.mkPP(ref(protocol.LEAN_HELIX_PREPREPARE, h, 0, blk), leader, "", blk), "PP")
		} else {
			var votes []*protocol.ViewChangeMessageContentBuilder
			for i := 1; i < r.cl.nMembers; i++ {
				votes = append(votes, r.adv.voteBuilder(voteD{ht: protocol.LEAN_HELIX_VIEW_CHANGE, inst: clusterInstance, h: h, v: v, sender: r.cl.ids[i]}))
			}
			d := nvD{inst: clusterInstance, h: h, v: v, sender: leader, votes: votes, pp: ref(protocol.LEAN_HELIX_PREPREPARE, h, v, blk), ppBy: leader}
			r.deliver(r.adv.mkNV(d, blk), "NV")
		}
	}
	switch r.intn(3) {
	case 0:
		for i := 1; i < r.cl.nMembers; i++ {
			if i != leaderIdx {
				r.deliver(r.adv.mkP(ref(protocol.LEAN_HELIX_PREPARE, h, v, blk), r.cl.ids[i], ""), "P")
			}
		}
	default:
		// the term's random seed derives from the proof it was started with: nil (sync) or the node's own commit of h-1
		seeds := [][]byte{randomseed.RandomSeedToBytes(randomseed.CalculateRandomSeed(protocol.BlockProofReader(nil).RandomSeedSignature()))}
		r.sendMu.Lock()
		if pr, ok := r.proofs[int(h)-1]; ok {
			seeds = append(seeds, randomseed.RandomSeedToBytes(randomseed.CalculateRandomSeed(protocol.BlockProofReader(pr).RandomSeedSignature())))
		}
		r.sendMu.Unlock()
		for _, sd := range seeds {
			for i := 1; i < r.cl.nMembers; i++ {
				rb := ref(protocol.LEAN_HELIX_COMMIT, h, v, blk).builder()
				cc := &protocol.CommitContentBuilder{SignedHeader: rb, Sender: r.adv.sig(r.cl.ids[i], primitives.BlockHeight(h), rb.Build().Raw(), ""),
					Share: r.cl.ring.share(r.cl.ids[i], h, sd)}
				r.deliver(wrap(&protocol.LeanhelixContentBuilder{Message: protocol.LEANHELIX_CONTENT_MESSAGE_COMMIT_MESSAGE, CommitMessage: cc}, nil), "C")
			}
		}
	}
}

// leaderIdx: member index of the leader of (h, v) - the committee order rotates with the height in half of the runs, so that the
// node under test (member 0) is a follower in view 0 of most heights and validates the peers' first proposals
func (r *rt) leaderIdx(h, v uint64) int {
	com := r.cl.committeeAt(h)
	id := com[int(v%uint64(len(com)))].Id
	for i, x := range r.cl.ids {
		if x.Equal(id) {
			return i
		}
	}
	return 0
}

// votesForRejected: the peers PREPARE and COMMIT every proposal the node's consumer has rejected (whatever view the node
// has moved to since): nothing may come of it
func (r *rt) votesForRejected() {
	r.gateMu.Lock()
	todo := r.rejectedSeen
	r.rejectedSeen = nil
	r.gateMu.Unlock()
	for _, rp := range todo {
		leaderIdx := r.leaderIdx(rp.h, rp.v)
		for i := 1; i < r.cl.nMembers; i++ {
			if i != leaderIdx {
				r.deliver(r.adv.mkP(ref(protocol.LEAN_HELIX_PREPARE, rp.h, rp.v, rp.blk), r.cl.ids[i], ""), "P")
			}
		}
		seeds := [][]byte{randomseed.RandomSeedToBytes(randomseed.CalculateRandomSeed(protocol.BlockProofReader(nil).RandomSeedSignature()))}
		r.sendMu.Lock()
		if pr, ok := r.proofs[int(rp.h)-1]; ok {
			seeds = append(seeds, randomseed.RandomSeedToBytes(randomseed.CalculateRandomSeed(protocol.BlockProofReader(pr).RandomSeedSignature())))
		}
		r.sendMu.Unlock()
		for _, sd := range seeds {
			for i := 1; i < r.cl.nMembers; i++ {
				rb := ref(protocol.LEAN_HELIX_COMMIT, rp.h, rp.v, rp.blk).builder()
				cc := &protocol.CommitContentBuilder{SignedHeader: rb, Sender: r.adv.sig(r.cl.ids[i], primitives.BlockHeight(rp.h), rb.Build().Raw(), ""),
					Share: r.cl.ring.share(r.cl.ids[i], rp.h, sd)}
				r.deliver(wrap(&protocol.LeanhelixContentBuilder{Message: protocol.LEANHELIX_CONTENT_MESSAGE_COMMIT_MESSAGE, CommitMessage: cc}, nil), "C")
			}
		}
	}
}

// garbage: content that is not a well-formed message
func (r *rt) garbage(rnd interface {
	Intn(int) int
	Read([]byte) (int, error)
}) (*interfaces.ConsensusRawMessage, string) {
	r.sendMu.Lock()
	var src *interfaces.ConsensusRawMessage
	if len(r.sends) > 0 {
		src = r.sends[rnd.Intn(len(r.sends))].raw
	}
	r.sendMu.Unlock()
	switch k := rnd.Intn(5); {
	case k == 4:
		if src != nil && rnd.Intn(2) == 0 {
			return &interfaces.ConsensusRawMessage{Content: nil, Block: src.Block}, "garbage_nil_content_with_block"
		}
		return &interfaces.ConsensusRawMessage{Content: nil}, "garbage_nil_content"
	case k == 0 || src == nil || len(src.Content) < 4:
		b := make([]byte, rnd.Intn(64))
		rnd.Read(b)
		return &interfaces.ConsensusRawMessage{Content: b}, "garbage_random"
	case k == 1:
		return &interfaces.ConsensusRawMessage{Content: []byte{}}, "garbage_empty"
	case k == 2:
		return &interfaces.ConsensusRawMessage{Content: append([]byte{}, src.Content[:rnd.Intn(len(src.Content))]...), Block: src.Block}, "garbage_truncated"
	default:
		b := append([]byte{}, src.Content...)
		b[rnd.Intn(len(b))] ^= byte(1 << uint(rnd.Intn(8)))
		return &interfaces.ConsensusRawMessage{Content: b, Block: src.Block}, "garbage_flipped"
	}
}

func (r *rt) fireElection(stale bool) {
	r.regMu.Lock()
	h, v, cb := r.regH, r.regV, r.regCb
	r.regMu.Unlock()
	if cb == nil {
		return
	}
	if stale && v > 0 {
		v--
	} else if stale && h > 1 { // a trigger of the height that was just closed (its timer fired before the term was disposed)
		h, v = h-1, uint64(r.intn(4))
	}
	tr := &interfaces.ElectionTrigger{MoveToNextLeader: func() { cb(primitives.BlockHeight(h), primitives.View(v), nil) },
		Hv: state.NewHeightView(primitives.BlockHeight(h), primitives.View(v))}
	r.log("driver.election", obj{"h": int(h), "v": int(v)})
	select {
	case r.elecCh <- tr:
	case <-time.After(2 * time.Second):
		r.log("driver.election.blocked", obj{"h": int(h), "v": int(v)})
	}
}

func (r *rt) updateState(ctx context.Context, b int, who string) {
	var blk interfaces.Block
	if b > 0 {
		blk = &vBlock{height: uint64(b), body: fmt.Sprintf("synced.h%d", b)}
	}
	hBefore, _ := r.hvAbs()
	r.log("api.update.start", obj{"b": b, "who": who, "h": hBefore})
	c2, cancel := context.WithTimeout(ctx, 2*time.Second)
	t0 := time.Now()
	err := r.main.UpdateState(c2, blk, nil)
	timedOut := c2.Err() != nil && ctx.Err() == nil
	cancel()
	if err == nil {
		for {
			cur := atomic.LoadInt64(&r.maxOkSync)
			if int64(b) <= cur || atomic.CompareAndSwapInt64(&r.maxOkSync, cur, int64(b)) {
				break
			}
		}
	}
	r.log("api.update.return", obj{"b": b, "who": who, "ok": err == nil, "ms": int(time.Since(t0) / time.Millisecond), "blocked": timedOut})
	if timedOut {
		atomic.StoreInt32(&r.hung, 1)
	}
}

func (r *rt) releaseSome(all bool) {
	r.gateMu.Lock()
	var ids []*blockedCall
	for _, bc := range r.blocked {
		if !bc.untilCtx {
			ids = append(ids, bc)
		}
	}
	r.gateMu.Unlock()
	for _, bc := range ids {
		if all || r.intn(2) == 0 {
			select {
			case <-bc.release:
			default:
				close(bc.release)
				r.log("driver.release", obj{"call": bc.id})
			}
		}
	}
}

func (r *rt) releaseEverything() {
	r.gateMu.Lock()
	var all []*blockedCall
	for _, bc := range r.blocked {
		all = append(all, bc)
	}
	r.gateMu.Unlock()
	for _, bc := range all {
		select {
		case <-bc.release:
		default:
			close(bc.release)
		}
	}
}

func (r *rt) blockedSnapshot() []obj {
	r.gateMu.Lock()
	defer r.gateMu.Unlock()
	out := []obj{}
	for _, bc := range r.blocked {
		out = append(out, obj{"call": bc.id, "kind": bc.kind, "h": bc.h, "v": bc.v, "ctxonly": bc.untilCtx})
	}
	return out
}

// moduleGoroutines: goroutines whose stack has a frame of the library (not of this harness)
// goid: id of the calling goroutine (from the first line of its stack trace)
func goid() int64 {
	var buf [64]byte
	n := runtime.Stack(buf[:], false)
	var id int64
	fmt.Sscanf(string(buf[:n]), "goroutine %d ", &id)
	return id
}

func moduleGoroutines() int { n, _ := moduleGoroutineStacks(); return n }

func moduleGoroutineStacks() (int, []string) {
	buf := make([]byte, 1<<20)
	n := runtime.Stack(buf, true)
	cnt := 0
	var where []string
	for _, g := range strings.Split(string(buf[:n]), "\n\n") {
		if strings.Contains(g, "github.com/orbs-network/lean-helix-go") || strings.Contains(g, "orbs-network/govnr") {
			if !strings.Contains(g, "main.moduleGoroutines") {
				cnt++
				fr := []string{}
				for _, ln := range strings.Split(g, "\n") {
					if strings.Contains(ln, "orbs-network") && !strings.HasPrefix(ln, "\t") {
						fr = append(fr, ln)
					}
				}
				if len(fr) > 4 {
					fr = fr[:4]
				}
				where = append(where, strings.Join(fr, " < "))
			}
		}
	}
	return cnt, where
}

type rtParams struct {
	seed          int64
	ops           int
	cancelAt      int // op index at which Run's context is cancelled (-1: only at the end)
	garbage       bool
	realTimer     bool
	syncAtCommit  bool // the first blocked commit callback is overtaken by a sync with the block of its height
	churn         int  // rounds of (election, commit in the next view) after the probe
	panicSync     bool // the cancellation comes from inside a consumer block whose Height() then panics in the main loop
	consumerPanic bool // one commit callback of the run panics (consumer code crashes)
	waitBlocked   bool // from cancelAt on: cancel at the first moment the worker sits in a consumer call (odd runs: real timer)
	staleAtCancel bool // from cancelAt on: as soon as a commit callback is blocked, the election of its (height, view) fires, the
	// callback is released (the worker moves on: the trigger waiting in its slot is now stale) and Run's context is cancelled at once
}

// panicBlock: a consumer block whose Height() cancels Run's context and panics (once) - a crash of consumer code
// on the main-loop goroutine that coincides with shutdown
type panicBlock struct {
	vBlock
	once  sync.Once
	f     func()
	fired int32
}

func (b *panicBlock) Height() primitives.BlockHeight {
	fire := false
	b.once.Do(func() { fire = true })
	if fire {
		atomic.StoreInt32(&b.fired, 1)
		b.f()
		panic("verif: consumer block panics while the node is being shut down")
	}
	return b.vBlock.Height()
}

// flood: more messages than the worker's inbox holds while the worker sits inside a consumer call
func (r *rt) flood() {
	if len(r.blockedSnapshot()) == 0 {
		return
	}
	h, v := r.hvAbs()
	if h <= 0 {
		return
	}
	raw := r.adv.mkP(ref(protocol.LEAN_HELIX_PREPARE, uint64(h), uint64(v), r.peerBlock(uint64(h), 0)), r.cl.ids[r.cl.nMembers], "")
	r.log("driver.flood", obj{"n": 1100, "blocked": r.blockedSnapshot()})
	for i := 0; i < 1100; i++ {
		ctx, cancel := context.WithTimeout(context.Background(), 2*time.Second)
		r.main.HandleConsensusMessage(ctx, raw)
		blocked := ctx.Err() != nil
		cancel()
		if blocked {
			r.log("api.msg.blocked", obj{"what": "flood", "ms": 2000})
			atomic.StoreInt32(&r.hung, 1)
			r.fireElection(false) // is the main loop still there to be told that the view of the blocked call is over ?
			return
		}
	}
}

// the configured election timeout of view 0: deliberately neither a whole number of milliseconds nor a round binary fraction
const rtTimeoutOnV0 = 2500 * time.Microsecond

var rtRunLimit = 240 * time.Second
var currentRt atomic.Value // *rt of the run in progress

func runRuntime(p rtParams, runId int) []rtEvent {
	rnd := newRand(p.seed)
	cl := newCluster([]uint64{1, 1, 1, 1}, []int{0, 1, 2, 3}, 1, rnd.Intn(2) == 0) // no cluster nodes: every key is held by the harness
	r := &rt{t0: time.Now(), cl: cl, adv: newAdversary(cl), me: cl.ids[0], rnd: newRand(p.seed + 1), maxOkSync: -1, blocked: map[int]*blockedCall{}, proofs: map[int][]byte{}, elecCh: make(chan *interfaces.ElectionTrigger),
		blockProb: map[string]int{"committee": rnd.Intn(30), "propose": rnd.Intn(60), "validate": rnd.Intn(60), "commit": rnd.Intn(40)}, ctxOnly: rnd.Intn(70)}
	atomic.StoreInt32(&r.failCommit, int32(rnd.Intn(25)))
	currentRt.Store(r)
	if p.staleAtCancel || p.syncAtCommit {
		r.blockProb["commit"] = 70
	}
	if p.consumerPanic {
		r.panicAtCommit = int64(1 + rnd.Intn(3))
	}
	cfg := &interfaces.Config{InstanceId: clusterInstance, Communication: r, Membership: r, BlockUtils: r,
		KeyManager: &nodeKeyManager{ring: cl.ring, me: r.me}, ElectionTimeoutOnV0: rtTimeoutOnV0}
	if !p.realTimer {
		cfg.OverrideElectionTrigger = r
	}
	r.main = leanhelix.NewLeanHelix(cfg, r.onCommit, r.onNewRound)
	// the goroutines of the two loops identify themselves at their first event; registry operations are attributed by goroutine
	var mainG, workerG int64
	r.main.VerifSetHooks(&leanhelix.VerifHooks{MainEvent: func(ev string, h, v uint64) {
		if ev == "run.start" {
			atomic.StoreInt64(&mainG, goid())
		}
		r.log("main."+ev, obj{"h": absNum(h), "v": absNum(v)})
	}})
	leanhelix.VerifSetDefaultWorkerHooks(&leanhelix.VerifHooks{
		WorkerEvent: func(ev string) {
			if ev == "run.start" {
				atomic.StoreInt64(&workerG, goid())
			}
			r.log("worker."+ev, nil)
		},
		WorkerStep: func(ev string, h, v uint64) { // on the worker goroutine, the only writer of State: what it reads is exact
			ch, cv := r.hvAbs()
			r.log("worker."+ev, obj{"h": absNum(h), "v": absNum(v), "curh": ch, "curv": cv})
		},
		WorkerIdle: func() { r.log("worker.idle", nil) },
	})
	defer leanhelix.VerifSetDefaultWorkerHooks(nil)
	registry := r.main.State().Contexts
	state.VerifCtxHook = func(w *state.ViewContexts, op string, h, v uint64, res string) {
		if w != registry {
			return
		}
		g, id := "other", goid()
		if id == atomic.LoadInt64(&mainG) {
			g = "main"
		} else if id == atomic.LoadInt64(&workerG) {
			g = "worker"
		}
		r.log("ctx."+op, obj{"h": absNum(h), "v": absNum(v), "res": res, "g": g})
	}
	defer func() { state.VerifCtxHook = nil }()
	base := moduleGoroutines()
	ctx, cancel := context.WithCancel(context.Background())
	r.log("init", obj{"consumer_panics": p.consumerPanic, "garbage": p.garbage, "run": runId, "seed": p.seed, "cancelat": p.cancelAt, "blockprob": fmt.Sprint(r.blockProb), "ctxonly": r.ctxOnly, "realtimer": p.realTimer, "base": base, "timeout_us": int(rtTimeoutOnV0 / time.Microsecond)})
	waiter := r.main.Run(ctx)
	cancelled := false
	doCancel := func() {
		if !cancelled {
			cancelled = true
			r.log("api.cancel", obj{"blocked": r.blockedSnapshot(), "panicsync": p.panicSync})
			if p.panicSync {
				h, _ := r.hvAbs()
				pb := &panicBlock{vBlock: vBlock{height: uint64(h + 1), body: "panics"}, f: cancel}
				c2, cancel2 := context.WithTimeout(ctx, 2*time.Second)
				r.main.UpdateState(c2, pb, nil)
				cancel2()
				for k := 0; k < 100 && atomic.LoadInt32(&pb.fired) == 0; k++ { // the main loop has taken the block: give it the moment it needs to look at it
					time.Sleep(500 * time.Microsecond)
				}
				pb.once.Do(func() {}) // the main loop never looked at it: plain cancellation
			}
			cancel()
		}
	}
	// a sampler goroutine observes State() concurrently
	stopSampler := make(chan struct{})
	var wg sync.WaitGroup
	wg.Add(1)
	go func() {
		defer wg.Done()
		for {
			select {
			case <-stopSampler:
				return
			default:
				r.sample("sampler")
				time.Sleep(150 * time.Microsecond)
			}
		}
	}()
	// two more observers read State() back to back and log only when what they see changes: a pair that was
	// never the node's state (height of one moment, view of another) shows up as a step backwards
	for _, name := range []string{"spin1", "spin2"} {
		name := name
		wg.Add(1)
		go func() {
			defer wg.Done()
			lh, lv := -1, -1
			for {
				select {
				case <-stopSampler:
					return
				default:
				}
				for k := 0; k < 64; k++ {
					if h, v := r.hvAbs(); h != lh || v != lv {
						lh, lv = h, v
						r.log("sample", obj{"obs": name, "h": h, "v": v})
					}
				}
				runtime.Gosched()
			}
		}()
	}
	if rnd.Intn(2) == 0 {
		r.rejectSalt = rnd.Intn(3)
		atomic.StoreInt32(&r.rejecting, 1)
	}
	r.updateState(ctx, 0, "driver") // start: sync with genesis
	maxB, floods := 0, 0
	syncedAtCommit := false
	for i := 0; i < p.ops; i++ {
		if p.staleAtCancel && i >= p.cancelAt && atomic.LoadInt32(&r.hung) == 0 {
			r.gateMu.Lock()
			var bc *blockedCall
			for _, x := range r.blocked {
				if x.kind == "commit" && (bc == nil || x.id < bc.id) {
					bc = x
				}
			}
			r.gateMu.Unlock()
			if bc != nil {
				r.log("driver.cancel_with_stale_election", obj{"call": bc.id, "h": bc.h})
				r.fireElection(false)
				time.Sleep(2 * time.Millisecond) // the main loop hands the trigger over to the worker's slot
				r.gateMu.Lock()
				r.blockProb["round"] = 100 // the worker will be held in the new-round callback of the next height
				r.gateMu.Unlock()
				select {
				case <-bc.release:
				default:
					close(bc.release)
				}
				for k := 0; k < 100; k++ { // wait for the worker to be held again, in the round it entered by its own commit
					held := false
					r.gateMu.Lock()
					for _, x := range r.blocked {
						if x.h == bc.h+1 {
							held = true
						}
					}
					r.gateMu.Unlock()
					if held {
						break
					}
					time.Sleep(time.Millisecond)
				}
				doCancel()
				r.releaseEverything() // the worker comes back to its select with the cancellation and the stale trigger both ready
				break
			}
		} else if p.waitBlocked && i >= p.cancelAt && p.cancelAt >= 0 && atomic.LoadInt32(&r.hung) == 0 {
			// cancellation (plain, or through the panicking consumer block) at the first moment from cancelAt on at which the
			// worker sits in a consumer call; the call takes 10 ms to unwind, longer than the real election timer needs to fire
			r.gateMu.Lock()
			nb := len(r.blocked)
			for _, x := range r.blocked { // worst-case consumer: from now on the call waits for its context only
				x.untilCtx = true
			}
			r.gateMu.Unlock()
			if nb > 0 {
				atomic.StoreInt32(&r.lingerMs, 10)
				r.log("driver.cancel_while_blocked", obj{"blocked": nb})
				doCancel()
				break
			}
		} else if i == p.cancelAt || atomic.LoadInt32(&r.hung) != 0 { // an API call that blocked has been reported: nothing more to learn from this run
			doCancel()
			break
		}
		r.votesForRejected()
		// directed, once per run of this kind: the first commit callback that blocks is overtaken by a node sync with the block of
		// that very height; from then on the callback waits for its context only (it must be the context of the height being left)
		if p.syncAtCommit && !syncedAtCommit {
			r.gateMu.Lock()
			var pick *blockedCall
			for _, bc := range r.blocked {
				if bc.kind == "commit" && (pick == nil || bc.id < pick.id) {
					pick = bc
				}
			}
			if pick != nil {
				pick.untilCtx = true
			}
			r.gateMu.Unlock()
			if pick != nil {
				syncedAtCommit = true
				r.log("driver.sync_over_blocked_call", obj{"call": pick.id, "kind": pick.kind, "h": pick.h})
				r.updateState(ctx, pick.h, "driver")
				if pick.h > maxB {
					maxB = pick.h
				}
				continue
			}
		}
		switch x := rnd.Intn(100); {
		case x < 45:
			r.traffic()
		case x < 58:
			r.releaseSome(false)
		case x < 68:
			r.fireElection(rnd.Intn(5) == 0)
		case x < 71:
			// directed: node sync with the block of the very height a consumer call is blocked in (commit callback
			// included) - the node is told to leave that height; from now on the call waits for its context only
			r.gateMu.Lock()
			var pick *blockedCall
			for _, bc := range r.blocked {
				if pick == nil || bc.id < pick.id {
					pick = bc
				}
			}
			if pick != nil {
				pick.untilCtx = true
			}
			r.gateMu.Unlock()
			if pick != nil && (pick.kind == "validate" || pick.kind == "propose") && rnd.Intn(2) == 0 {
				// ... or the election of the view the call belongs to fires while it runs
				r.log("driver.election_over_blocked_call", obj{"call": pick.id, "kind": pick.kind, "h": pick.h})
				r.fireElection(false)
			} else if pick != nil {
				r.log("driver.sync_over_blocked_call", obj{"call": pick.id, "kind": pick.kind, "h": pick.h})
				r.updateState(ctx, pick.h, "driver")
				if pick.h > maxB {
					maxB = pick.h
				}
			}
		case x < 80:
			h, _ := r.hvAbs()
			b := h - 2 + rnd.Intn(5) // older, equal, newer
			if b < 0 {
				b = 0
			}
			if rnd.Intn(4) == 0 { // burst
				for k := 0; k < 3; k++ {
					bb := b - 1 + rnd.Intn(3)
					if bb < 0 {
						bb = 0
					}
					r.updateState(ctx, bb, "driver")
					if bb > maxB {
						maxB = bb
					}
				}
			} else {
				r.updateState(ctx, b, "driver")
				if b > maxB {
					maxB = b
				}
			}
		case x < 86 && p.garbage:
			raw, name := r.garbage(rnd)
			r.log("driver.garbage", obj{"tmpl": name})
			r.deliver(raw, "garbage")
		case x < 93 && x >= 90 && p.garbage && floods < 2:
			floods++
			r.flood()
		case x < 90 && p.garbage:
			b := r.peerBlock(1, 0)
			ev := []uint64{1 << 63, 1<<63 + 1, math.MaxUint64}[rnd.Intn(3)]
			h, _ := r.hvAbs()
			r.log("driver.garbage", obj{"tmpl": "extreme_view"})
			r.deliver(r.adv.mkVC(voteD{ht: protocol.LEAN_HELIX_VIEW_CHANGE, inst: clusterInstance, h: uint64(h), v: ev, sender: cl.ids[1]}, nil), "VC")
			r.deliver(r.adv.mkP(ref(protocol.LEAN_HELIX_PREPARE, uint64(h), ev, b), cl.ids[2], ""), "P")
		default:
			time.Sleep(time.Duration(rnd.Intn(400)) * time.Microsecond)
		}
		r.sample("driver")
		if rnd.Intn(3) == 0 {
			time.Sleep(time.Duration(rnd.Intn(300)) * time.Microsecond)
		}
	}
	atomic.StoreInt32(&r.rejecting, 0)
	if !cancelled {
		// quiesce: release what the driver may release; calls waiting for their context only stay blocked.
		// The node must get past every accepted sync on its own.
		deadline := time.Now().Add(1500 * time.Millisecond)
		for time.Now().Before(deadline) {
			r.releaseSome(true)
			h, _ := r.hvAbs()
			if h > maxB {
				break
			}
			time.Sleep(2 * time.Millisecond)
		}
		stable, last := 0, -1
		for k := 0; k < 150 && stable < 10; k++ { // let cancelled calls notice it: snapshot once the blocked set is stable for 20ms
			n := len(r.blockedSnapshot())
			if n == last {
				stable++
			} else {
				stable, last = 0, n
			}
			time.Sleep(2 * time.Millisecond)
		}
		h, v := r.hvAbs()
		r.log("quiesce", obj{"h": h, "v": v, "maxb": maxB, "blocked": r.blockedSnapshot()})
		// liveness probe after whatever was injected: the node still decides a height when fed traffic
		atomic.StoreInt32(&r.failCommit, 0)
		r.gateMu.Lock()
		for k := range r.blockProb {
			r.blockProb[k] = 0
		}
		r.gateMu.Unlock()
		h0, _ := r.hvAbs()
		c0 := atomic.LoadInt64(&r.commitCount)
		r.releaseEverything() // the probe is about the node, not about calls the consumer keeps blocked
		deadline = time.Now().Add(3 * time.Second)
		progressed := false
		for it := 0; time.Now().Before(deadline); it++ {
			r.releaseEverything()
			r.traffic()
			if it%200 == 199 { // no progress for a while: the view may have no live leader, or the term is spent
				if (it/200)%3 == 2 { //  (a failed commit callback leaves the term committed): node sync moves on
					hc, _ := r.hvAbs()
					r.updateState(ctx, hc, "probe")
				} else {
					r.fireElection(false)
				}
			}
			time.Sleep(300 * time.Microsecond)
			if atomic.LoadInt64(&r.commitCount) > c0 {
				progressed = true
				break
			}
		}
		hh, vv := r.hvAbs()
		r.log("probe", obj{"from": h0, "h": hh, "v": vv, "progressed": progressed, "blocked": r.blockedSnapshot()})
		// churn: heights that close in a view above 0, for the observers of State() (a torn (height, view) pair needs one)
		for round := 0; progressed && round < p.churn; round++ {
			c1 := atomic.LoadInt64(&r.commitCount)
			r.fireElection(false)
			for it := 0; it < 60 && atomic.LoadInt64(&r.commitCount) == c1; it++ {
				r.releaseEverything()
				r.traffic()
				time.Sleep(200 * time.Microsecond)
			}
		}
	}
	doCancel()
	t0 := time.Now()
	doneCh := make(chan struct{})
	go func() { waiter.WaitUntilShutdown(context.Background()); close(doneCh) }()
	returned := false
	select {
	case <-doneCh:
		returned = true
	case <-time.After(3 * time.Second):
	}
	r.log("shutdown.returned", obj{"ok": returned, "ms": int(time.Since(t0) / time.Millisecond)})
	close(stopSampler)
	wg.Wait()
	// API calls with the cancelled context return promptly
	t1 := time.Now()
	err := r.main.UpdateState(ctx, nil, nil)
	r.main.HandleConsensusMessage(ctx, &interfaces.ConsensusRawMessage{Content: []byte{}})
	r.log("api.after_cancel", obj{"update_err": err != nil, "ms": int(time.Since(t1) / time.Millisecond)})
	r.releaseSome(true)
	time.Sleep(20 * time.Millisecond)
	leaks := 0
	for k := 0; k < 500; k++ { // up to 5 s: a goroutine that is merely late is not a leak
		leaks = moduleGoroutines() - base
		if leaks <= 0 {
			break
		}
		time.Sleep(10 * time.Millisecond)
	}
	_, where := moduleGoroutineStacks()
	if leaks <= 0 || where == nil {
		where = []string{}
	}
	r.regMu.Lock()
	stopped := r.regCb == nil
	r.regMu.Unlock()
	r.log("end", obj{"leaks": leaks, "where": where, "stopped": stopped || p.realTimer})
	r.mu.Lock()
	defer r.mu.Unlock()
	return r.events
}

func cmdRuntime(args []string) int {
	fs := flag.NewFlagSet("runtime", flag.ExitOnError)
	outPath := fs.String("out", "runtime.ndjson", "")
	seed := fs.Int64("seed", 1, "")
	runs := fs.Int("runs", 40, "")
	ops := fs.Int("ops", 120, "")
	only := fs.Int("only", -1, "")
	fs.Parse(args)
	out := newNdjson(*outPath)
	defer out.close()
	total := 0
	for i := 0; i < *runs; i++ {
		if *only >= 0 && i != *only {
			continue
		}
		rnd := newRand(*seed*7919 + int64(i))
		p := rtParams{seed: *seed*7919 + int64(i), ops: *ops, cancelAt: -1, garbage: i%2 == 0, realTimer: i%2 == 1, churn: 15}
		if i%3 == 1 && i%2 == 0 {
			p.cancelAt = rnd.Intn(*ops) // plain cancellation at a random point of the run
		}
		p.consumerPanic = i%6 == 5
		p.syncAtCommit = i%6 == 2 && p.cancelAt < 0
		if i%3 == 0 {
			p.cancelAt = rnd.Intn(*ops) // cancellation injected at a random point of the run
			p.panicSync = i%4 == 1
			p.waitBlocked = i%2 == 1
			if p.waitBlocked {
				p.cancelAt = rnd.Intn(*ops / 2)
			}
			p.staleAtCancel = i%2 == 0 // (even run index: the fake scheduler, whose elections the driver can fire at will)
			if p.staleAtCancel {
				p.cancelAt = rnd.Intn(*ops / 2)
			}
		}
		// a run takes a few seconds at most; one that does not end (the two loops deadlocked, an API call that never returns) is
		// an outcome: what was logged so far is written, followed by a "hang" event, and the driver ends (exit 0: TLC judges)
		done := make(chan []rtEvent, 1)
		go func() { done <- runRuntime(p, i) }()
		var evs []rtEvent
		hung := false
		select {
		case evs = <-done:
		case <-time.After(rtRunLimit):
			hung = true
			if r, _ := currentRt.Load().(*rt); r != nil {
				r.mu.Lock()
				evs = append([]rtEvent{}, r.events...)
				r.mu.Unlock()
				evs = append(evs, obj{"ev": "hang", "seq": atomic.AddInt64(&r.seq, 1)})
			}
		}
		for _, e := range evs {
			out.emit(e)
		}
		total += len(evs)
		if hung {
			out.close()
			fmt.Printf("lines=%d runs=%d HANG in run %d\n", total, *runs, i)
			os.Exit(0)
		}
	}
	fmt.Printf("lines=%d runs=%d\n", total, *runs)
	return 0
}
