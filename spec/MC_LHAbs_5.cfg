CONSTANTS N = 5 MaxView = 2 NBlocks = 2 Byz <- ByzOne Dev <- NoDev W <- W5
INIT Init
NEXT Next
INVARIANTS Agreement IndInv
CHECK_DEADLOCK FALSE
