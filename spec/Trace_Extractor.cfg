INIT Init
NEXT Next
INVARIANT LineOK
CHECK_DEADLOCK FALSE
