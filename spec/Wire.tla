-------------------------------- MODULE Wire --------------------------------
(* C20: the shape grammar of the five message types (what the factory can build) and the     *)
(* round-trip requirement.  A shape fixes the structure; field contents are drawn per shape.  *)
EXTENDS Integers, Sequences, FiniteSets
CONSTANT MaxVotes, MaxPrep
Kinds == {"PP", "P", "C", "VC", "NV"}
\* [k, blk (block attached), proof (VC: own proof), nprep (senders in that proof),
\*  nvotes (NV), pvotes (how many of the votes carry a proof)]
Shapes ==
  {[k |-> "PP", blk |-> b, proof |-> FALSE, nprep |-> 0, nvotes |-> 0, pvotes |-> 0] : b \in BOOLEAN} \cup
  {[k |-> kk, blk |-> FALSE, proof |-> FALSE, nprep |-> 0, nvotes |-> 0, pvotes |-> 0] : kk \in {"P", "C"}} \cup
  {[k |-> "VC", blk |-> b, proof |-> p, nprep |-> IF p THEN n ELSE 0, nvotes |-> 0, pvotes |-> 0] :
       b \in BOOLEAN, p \in BOOLEAN, n \in 0..MaxPrep} \cup
  {[k |-> "NV", blk |-> b, proof |-> FALSE, nprep |-> n, nvotes |-> v, pvotes |-> pv] :
       b \in BOOLEAN, n \in 0..MaxPrep, v \in 0..MaxVotes, pv \in 0..MaxVotes}
ShapeOK(s) == s \in Shapes /\ s.pvotes <= s.nvotes /\ (s.pvotes = 0 => (s.k # "NV" \/ s.nprep = 0))

\* e: [shape, before, after, after2, vb, va] - projections are nested records of strings
RoundTripOK(e) == /\ e.before = e.after                    \* every accessor value survives
                  /\ e.after = e.after2                     \* parsing is deterministic
                  /\ Len(e.vb) = Len(e.va)
                  /\ \A i \in DOMAIN e.vb : e.vb[i] => e.va[i]   \* what verified still verifies
=============================================================================
