"""Minimal parser for the TLA+ values TLC prints in state dumps (records, sequences, sets, functions written
with :> and @@, strings, integers, booleans).  Used to read behaviours written by `tlc -simulate file=...`."""
import re

_TOK = re.compile(r'\s*("(?:[^"\\]|\\.)*"|-?\d+|<<|>>|\|->|:>|@@|[\[\]{}(),]|[A-Za-z_][A-Za-z0-9_]*)')


def _tokens(s):
    pos, out = 0, []
    while pos < len(s):
        m = _TOK.match(s, pos)
        if not m:
            if s[pos:].strip() == "":
                break
            raise ValueError("cannot tokenise at %r" % s[pos:pos + 30])
        out.append(m.group(1))
        pos = m.end()
    return out


class _P:
    def __init__(self, toks):
        self.t, self.i = toks, 0

    def peek(self):
        return self.t[self.i] if self.i < len(self.t) else None

    def take(self, x=None):
        v = self.t[self.i]
        if x is not None and v != x:
            raise ValueError("expected %s got %s" % (x, v))
        self.i += 1
        return v

    def value(self):
        t = self.peek()
        if t == "[":
            self.take()
            rec = {}
            if self.peek() == "]":
                self.take()
                return rec
            while True:
                k = self.take()
                self.take("|->")
                rec[k] = self.value()
                if self.peek() == ",":
                    self.take()
                    continue
                self.take("]")
                return rec
        if t == "<<":
            self.take()
            out = []
            while self.peek() != ">>":
                out.append(self.value())
                if self.peek() == ",":
                    self.take()
            self.take(">>")
            return out
        if t == "{":
            self.take()
            out = []
            while self.peek() != "}":
                out.append(self.value())
                if self.peek() == ",":
                    self.take()
            self.take("}")
            return {"__set__": out}
        if t == "(":
            self.take()
            fn = {}
            while True:
                k = self.value()
                self.take(":>")
                fn[k if isinstance(k, (str, int)) else repr(k)] = self.value()
                if self.peek() == "@@":
                    self.take()
                    continue
                self.take(")")
                return fn
        self.take()
        if t.startswith('"'):
            return t[1:-1]
        if t == "TRUE":
            return True
        if t == "FALSE":
            return False
        if re.fullmatch(r"-?\d+", t):
            return int(t)
        return t


def parse_value(text):
    return _P(_tokens(text)).value()


def unset(v):
    """sets -> lists, recursively (JSON friendly)"""
    if isinstance(v, dict):
        if "__set__" in v and len(v) == 1:
            return [unset(x) for x in v["__set__"]]
        return {k: unset(x) for k, x in v.items()}
    if isinstance(v, list):
        return [unset(x) for x in v]
    return v


def behaviour_variable(path, var):
    """values of one variable along a behaviour file written by tlc -simulate file=..."""
    text = open(path).read()
    out = []
    for st in re.split(r"\nSTATE_\d+ ==", text)[1:]:
        m = re.search(r"/\\ %s = " % re.escape(var), st)
        if not m:
            continue
        rest = st[m.end():]
        nxt = re.search(r"\n/\\ [A-Za-z_]+ = ", rest)
        body = rest[:nxt.start()] if nxt else re.split(r"\n\n|\n=+", rest)[0]
        out.append(unset(parse_value(body)))
    return out
