"""C13: see props/runtime.py (Runtime.tla model checked; real runtime traces validated by Trace_Runtime.tla)."""
from props import runtime

PID = "C13"


def _cluster_part(rep, tier, seed):
    from props import cluster
    cluster.judge(rep, PID, tier, 0, args={"scenarios": True, "seed": 0}, what="directed schedules (multi-height, future cache)")
    cluster.judge(rep, PID, tier, seed, what="random adversarial schedules over several heights")
    from props import specreplay
    specreplay.judge_two_heights(rep, PID, tier, seed)


def run(tier, seed):
    return runtime.simple_check(PID, tier, seed, extra=_cluster_part)


def replay(path, seed):
    import json
    if json.load(open(path)).get("kind") == "cluster-run":
        from props import cluster
        return cluster.simple_replay(PID, path, seed)
    return runtime.simple_replay(PID, path, seed)
