CONSTANTS MaxVotes = 3 MaxPrep = 3
INIT Init
NEXT Next
CHECK_DEADLOCK FALSE
