CONSTANT MaxEntries = 3
SPECIFICATION Spec
INVARIANT Inv
PROPERTIES StoresOnlyAdd ClearIsExact FirstProposalWins
CHECK_DEADLOCK FALSE
