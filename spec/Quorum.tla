------------------------------- MODULE Quorum -------------------------------
(* Weighted-quorum arithmetic of services/quorum/quorum.go, over unbounded integers.   *)
(* A committee is a sequence of weights (member i has weight w[i]); a "subset" handed  *)
(* to the tests is a SEQUENCE of ids (so duplicates and foreign ids can be expressed);  *)
(* ids 1..Len(w) are members, anything else is an outsider.                            *)
EXTENDS Integers, Sequences, FiniteSets

Range(s) == {s[i] : i \in DOMAIN s}

RECURSIVE SumUpTo(_, _)
SumUpTo(w, i) == IF i = 0 THEN 0 ELSE SumUpTo(w, i - 1) + w[i]
Total(w) == SumUpTo(w, Len(w))

\* f and Q exactly as the property words them; the code returns Q = 1, f = 0 for W = 0
F(W) == IF W = 0 THEN 0 ELSE (W - 1) \div 3
Q(W) == IF W = 0 THEN 1 ELSE W - F(W)

\* set semantics: duplicates, non-members and zero weights add nothing
RECURSIVE WeightUpTo(_, _, _)
WeightUpTo(S, w, i) == IF i = 0 THEN 0
                       ELSE WeightUpTo(S, w, i - 1) + (IF i \in S THEN w[i] ELSE 0)
SubsetWeight(ids, w) == WeightUpTo(Range(ids), w, Len(w))
SetWeight(S, w)      == WeightUpTo(S, w, Len(w))

IsQuorum(ids, w)  == SubsetWeight(ids, w) >= Q(Total(w))
HasHonest(ids, w) == SubsetWeight(ids, w) >  F(Total(w))
IsQuorumSet(S, w)  == SetWeight(S, w) >= Q(Total(w))
HasHonestSet(S, w) == SetWeight(S, w) >  F(Total(w))

-----------------------------------------------------------------------------
(* The laws of C06 for one weight vector w (all member subsets A, B).                  *)
Members(w) == 1..Len(w)

Intersect(w) == \A A, B \in SUBSET Members(w) :
                   IsQuorumSet(A, w) /\ IsQuorumSet(B, w) => SetWeight(A \cap B, w) > F(Total(w))
QuorumHasHonest(w) == \A A \in SUBSET Members(w) : IsQuorumSet(A, w) => HasHonestSet(A, w)
Attainable(w) == Total(w) > 0 =>
                   \A A \in SUBSET Members(w) :
                      SetWeight(A, w) <= F(Total(w)) => IsQuorumSet(Members(w) \ A, w)
Monotone(w) == \A A, B \in SUBSET Members(w) :
                   A \subseteq B => /\ (IsQuorumSet(A, w) => IsQuorumSet(B, w))
                                    /\ (HasHonestSet(A, w) => HasHonestSet(B, w))
\* duplicates / outsiders / zero weights: adding them never changes the weight
NoFreeWeight(w) == \A A \in SUBSET Members(w) :
                     /\ SubsetWeight(<<0, Len(w) + 1>>, w) = 0                      \* only outsiders
                     /\ \A z \in {i \in Members(w) : w[i] = 0} : SetWeight(A \cup {z}, w) = SetWeight(A, w)
Laws(w) == Intersect(w) /\ QuorumHasHonest(w) /\ Attainable(w) /\ Monotone(w) /\ NoFreeWeight(w)
=============================================================================
