------------------------------ MODULE MC_LHAbs ------------------------------
(* Instances of LHAbstract.tla for TLC. *)
EXTENDS LHAbstract
W4 == [i \in 0..3 |-> 1]                                   \* four members of weight 1, f = 1
W4w == [i \in 0..3 |-> IF i = 0 THEN 3 ELSE IF i = 3 THEN 1 ELSE 2]   \* weights 3,2,2,1: W = 8, f = 2, Q = 6
W5 == [i \in 0..4 |-> 1]                                   \* five members of weight 1: W = 5, f = 1, Q = 4
W7 == [i \in 0..6 |-> IF i < 2 THEN 3 ELSE IF i < 4 THEN 2 ELSE 1]   \* weights 3,3,2,2,1,1,1: W = 13, f = 4, Q = 9
Byz7 == {1, 6}                                              \* weight 3 + 1 = f
ByzOne == {1}
ByzLast == {3}
ByzWeighted == {2}                                          \* weight 2 = f
NoDev == {}
H2 == {"h2"}
=============================================================================
