package main

import (
	"bufio"
	"context"
	"encoding/json"
	"fmt"
	"github.com/orbs-network/lean-helix-go/services/interfaces"
	"github.com/orbs-network/lean-helix-go/spec/types/go/primitives"
	"math/rand"
	"os"
	"sync"
	"sync/atomic"
	"time"
)

const limbCount = 10
const limbBase = 32768

// limbs renders a 64-bit value as BigNat.tla expects it: limbCount base-2^15 digits, MSB first.
func limbs(u uint64) []int {
	out := make([]int, limbCount)
	for i := limbCount - 1; i >= 0; i-- {
		out[i] = int(u % limbBase)
		u /= limbBase
	}
	return out
}

// absNum maps a 64-bit protocol number into TLC's integer range, order preserving on the
// classes the specs distinguish: small values are kept, anything above 10^6 becomes 10^9 + class.
func absNum(u uint64) int {
	if u < 1000000 {
		return int(u)
	}
	switch {
	case u == ^uint64(0):
		return 1000000009
	// (the adversary's extreme values get representatives of their own: 2^63+1 and 2^64-2 have the same residue modulo 5 - as one
	// representative they looked like one view with a quorum of votes to the specification, conformance drift in soak seed 100)
	case u == ^uint64(0)-1:
		return 1000000008
	case u == 1<<63+1:
		return 1000000006
	case u >= 1<<63:
		return 1000000005
	case u >= 1<<32:
		return 1000000003
	default:
		return 1000000001
	}
}

type ndjson struct {
	f  *os.File
	w  *bufio.Writer
	n  int
	mu sync.Mutex
	// beat: time of the last line written (unix nanoseconds); see watchdog
	beat int64
}

// watchdog: a table / tree driver calls the library directly; a call that never returns (a lock the library leaked on an earlier
// call, a wait nobody ends) would leave the driver hanging until the check's time limit - an inconclusive run.  When no line has
// been written for `after`, the watchdog writes `line` (an event of the driver's own format saying "the call made after the
// last line did not return"), closes the trace and ends the process with exit 0: the trace specification judges the hang.
func (o *ndjson) watchdog(after time.Duration, line func() obj) {
	atomic.StoreInt64(&o.beat, time.Now().UnixNano())
	go func() {
		for {
			time.Sleep(time.Second)
			if time.Duration(time.Now().UnixNano()-atomic.LoadInt64(&o.beat)) > after {
				o.emit(line())
				o.close()
				fmt.Printf("lines=%d HANG\n", o.n)
				os.Exit(0)
			}
		}
	}()
}

func newNdjson(path string) *ndjson {
	f, err := os.Create(path)
	if err != nil {
		fmt.Fprintln(os.Stderr, err)
		os.Exit(2)
	}
	return &ndjson{f: f, w: bufio.NewWriterSize(f, 1<<20)}
}

func (o *ndjson) emit(v interface{}) {
	b, err := json.Marshal(v)
	if err != nil {
		fmt.Fprintln(os.Stderr, "marshal:", err)
		os.Exit(2)
	}
	o.mu.Lock()
	o.w.Write(b)
	o.w.WriteByte('\n')
	o.n++
	o.mu.Unlock()
	atomic.StoreInt64(&o.beat, time.Now().UnixNano())
}

func (o *ndjson) close() {
	o.mu.Lock()
	o.w.Flush()
	o.f.Close()
	o.mu.Unlock()
}

type obj = map[string]interface{}

func newRand(seed int64) *rand.Rand { return rand.New(rand.NewSource(seed)) }

func writeJSON(path string, v interface{}) {
	b, _ := json.MarshalIndent(v, "", " ")
	if err := os.WriteFile(path, b, 0644); err != nil {
		fmt.Fprintln(os.Stderr, err)
		os.Exit(2)
	}
}

func readNdjson(path string) []obj {
	f, err := os.Open(path)
	if err != nil {
		fmt.Fprintln(os.Stderr, err)
		os.Exit(2)
	}
	defer f.Close()
	var out []obj
	sc := bufio.NewScanner(f)
	sc.Buffer(make([]byte, 1<<20), 1<<28)
	for sc.Scan() {
		if len(sc.Bytes()) == 0 {
			continue
		}
		var e obj
		if err := json.Unmarshal(sc.Bytes(), &e); err != nil {
			fmt.Fprintln(os.Stderr, "bad ndjson line:", err)
			os.Exit(2)
		}
		out = append(out, e)
	}
	return out
}

func unlimbs(v interface{}) uint64 {
	var u uint64
	for _, d := range v.([]interface{}) {
		u = u*limbBase + uint64(d.(float64))
	}
	return u
}

func intList(v interface{}) []int {
	out := []int{}
	if v == nil {
		return out
	}
	for _, d := range v.([]interface{}) {
		out = append(out, int(d.(float64)))
	}
	return out
}

// fakeMembershipId is the minimal Membership the repo's logger needs (MyMemberId only).
type fakeMembershipId struct{ id primitives.MemberId }

func (m *fakeMembershipId) MyMemberId() primitives.MemberId { return m.id }
func (m *fakeMembershipId) RequestOrderedCommittee(ctx context.Context, blockHeight primitives.BlockHeight, randomSeed uint64, prevBlockReferenceTime primitives.TimestampSeconds) ([]interfaces.CommitteeMember, error) {
	return nil, nil
}
func (m *fakeMembershipId) RequestCommitteeForBlockProof(ctx context.Context, blockHeight primitives.BlockHeight, prevBlockReferenceTime primitives.TimestampSeconds) ([]interfaces.CommitteeMember, error) {
	return nil, nil
}
