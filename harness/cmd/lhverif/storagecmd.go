package main

// Tree traces of the real message log (services/storage InMemoryStorage): every sequence of stores and clears up to
// a depth over a small domain of (height, view, hash, sender), plus long random sequences.  After every call the log
// is read back through EVERY getter the term uses; Trace_Storage.tla replays the calls through Storage.tla and compares.

import (
	"flag"
	"fmt"
	"sort"
	"time"

	"github.com/orbs-network/lean-helix-go/services/interfaces"
	"github.com/orbs-network/lean-helix-go/services/storage"
	"github.com/orbs-network/lean-helix-go/spec/types/go/primitives"
	"github.com/orbs-network/lean-helix-go/spec/types/go/protocol"
)

func init() { register("storage", cmdStorage) }

type stOp struct {
	op   string // store | clear
	k    string // PP P C VC
	h, v int
	x, s string
}

type stRun struct {
	cl   *cluster
	adv  *adversary
	st   *storage.InMemoryStorage
	body map[string]*vBlock
	who  map[string]primitives.MemberId
}

var stHeights, stViews = []int{1, 2}, []int{0, 1}
var stHashes, stSenders = []string{"a", "b"}, []string{"p", "q"}

func newStRun() *stRun {
	cl := newCluster([]uint64{1, 1, 1, 1}, []int{0, 1, 2, 3}, 0, false) // no nodes: every key is held by the harness
	r := &stRun{cl: cl, adv: newAdversary(cl), st: storage.NewInMemoryStorage(), body: map[string]*vBlock{}, who: map[string]primitives.MemberId{"p": cl.ids[1], "q": cl.ids[2]}}
	return r
}

func (r *stRun) blk(h int, x string) *vBlock {
	k := fmt.Sprintf("%d/%s", h, x)
	if b, ok := r.body[k]; ok {
		return b
	}
	b := &vBlock{height: uint64(h), body: fmt.Sprintf("st.h%d.%s", h, x)}
	r.cl.addBody(b.body)
	r.body[k] = b
	return b
}

func (r *stRun) apply(o stOp) (res bool, panicked bool) {
	defer func() {
		if e := recover(); e != nil {
			panicked = true
		}
	}()
	if o.op == "clear" {
		r.st.ClearBlockHeightLogs(primitives.BlockHeight(o.h))
		return true, false
	}
	b, id := r.blk(o.h, o.x), r.who[o.s]
	switch o.k {
	case "PP":
		m := interfaces.ToConsensusMessage(r.adv.mkPP(ref(protocol.LEAN_HELIX_PREPREPARE, uint64(o.h), uint64(o.v), b), id, "", b)).(*interfaces.PreprepareMessage)
		return r.st.StorePreprepare(m), false
	case "P":
		m := interfaces.ToConsensusMessage(r.adv.mkP(ref(protocol.LEAN_HELIX_PREPARE, uint64(o.h), uint64(o.v), b), id, "")).(*interfaces.PrepareMessage)
		return r.st.StorePrepare(m), false
	case "C":
		m := interfaces.ToConsensusMessage(r.adv.mkC(ref(protocol.LEAN_HELIX_COMMIT, uint64(o.h), uint64(o.v), b), id, "", "")).(*interfaces.CommitMessage)
		return r.st.StoreCommit(m), false
	case "VC":
		m := interfaces.ToConsensusMessage(r.adv.mkVC(voteD{ht: protocol.LEAN_HELIX_VIEW_CHANGE, inst: clusterInstance, h: uint64(o.h), v: uint64(o.v), sender: id}, nil)).(*interfaces.ViewChangeMessage)
		return r.st.StoreViewChange(m), false
	}
	return false, false
}

func (r *stRun) name(id primitives.MemberId) string {
	for k, v := range r.who {
		if v.Equal(id) {
			return k
		}
	}
	return "?"
}

func (r *stRun) hashName(h int, hash primitives.BlockHash) string {
	for _, x := range stHashes {
		if string(hashOfBody(r.blk(h, x).body)) == string(hash) {
			return x
		}
	}
	return "?"
}

func sorted(l []string) []string { sort.Strings(l); return l }

// obs: the whole log as the getters show it
func (r *stRun) obs() (o obj) {
	defer func() {
		if e := recover(); e != nil {
			o = obj{"panic": true, "pp": []obj{}, "pp2": []obj{}, "latest": []obj{}, "ps": []obj{}, "pids": []obj{}, "psv": []obj{}, "cs": []obj{}, "cids": []obj{}, "csv": []obj{}, "vs": []obj{}, "all": []obj{}}
		}
	}()
	pp, pp2, latest, ps, pids, psv, cs, cids, csv, vs, all := []obj{}, []obj{}, []obj{}, []obj{}, []obj{}, []obj{}, []obj{}, []obj{}, []obj{}, []obj{}, []obj{}
	for _, h := range stHeights {
		bh := primitives.BlockHeight(h)
		if m, ok := r.st.GetLatestPreprepare(bh); ok && m != nil {
			latest = append(latest, obj{"h": h, "v": int(m.View()), "x": r.hashName(h, m.Content().SignedHeader().BlockHash()), "s": r.name(m.SenderMemberId())})
		}
		for _, v := range stViews {
			bv := primitives.View(v)
			if m, ok := r.st.GetPreprepareMessage(bh, bv); ok && m != nil {
				pp = append(pp, obj{"h": h, "v": v, "x": r.hashName(h, m.Content().SignedHeader().BlockHash()), "s": r.name(m.SenderMemberId())})
			}
			if m, ok := r.st.GetPreprepareFromView(bh, bv); ok && m != nil {
				pp2 = append(pp2, obj{"h": h, "v": v, "x": r.hashName(h, m.Content().SignedHeader().BlockHash()), "s": r.name(m.SenderMemberId())})
			}
			if ms, ok := r.st.GetPrepareMessagesFromView(bh, bv); ok {
				for _, m := range ms {
					psv = append(psv, obj{"h": h, "v": v, "x": r.hashName(h, m.Content().SignedHeader().BlockHash()), "s": r.name(m.SenderMemberId())})
				}
			}
			if ms, ok := r.st.GetCommitMessagesFromView(bh, bv); ok {
				for _, m := range ms {
					csv = append(csv, obj{"h": h, "v": v, "x": r.hashName(h, m.Content().SignedHeader().BlockHash()), "s": r.name(m.SenderMemberId())})
				}
			}
			if ms, ok := r.st.GetViewChangeMessages(bh, bv); ok {
				for _, m := range ms {
					vs = append(vs, obj{"h": h, "v": v, "s": r.name(m.SenderMemberId())})
				}
			}
			all = append(all, obj{"h": h, "v": v, "n": len(r.st.GetAllMessagesFromView(bh, bv))})
			for _, x := range stHashes {
				hash := hashOfBody(r.blk(h, x).body)
				if ms, ok := r.st.GetPrepareMessages(bh, bv, hash); ok {
					for _, m := range ms {
						ps = append(ps, obj{"h": h, "v": v, "x": x, "s": r.name(m.SenderMemberId())})
					}
				}
				for _, id := range r.st.GetPrepareSendersIds(bh, bv, hash) {
					pids = append(pids, obj{"h": h, "v": v, "x": x, "s": r.name(id)})
				}
				if ms, ok := r.st.GetCommitMessages(bh, bv, hash); ok {
					for _, m := range ms {
						cs = append(cs, obj{"h": h, "v": v, "x": x, "s": r.name(m.SenderMemberId())})
					}
				}
				for _, id := range r.st.GetCommitSendersIds(bh, bv, hash) {
					cids = append(cids, obj{"h": h, "v": v, "x": x, "s": r.name(id)})
				}
			}
		}
	}
	return obj{"panic": false, "pp": pp, "pp2": pp2, "latest": latest, "ps": ps, "pids": pids, "psv": psv, "cs": cs, "cids": cids, "csv": csv, "vs": vs, "all": all}
}

func (o stOp) line(res, panicked bool, obs obj) obj {
	return obj{"op": o.op, "k": o.k, "h": o.h, "v": o.v, "x": o.x, "s": o.s, "res": res, "panic": panicked, "obs": obs}
}

func cmdStorage(args []string) int {
	fs := flag.NewFlagSet("storage", flag.ExitOnError)
	outPath := fs.String("out", "storage.ndjson", "")
	seed := fs.Int64("seed", 1, "")
	depth := fs.Int("depth", 3, "tree depth")
	nRand := fs.Int("rand", 300, "random sequences")
	randLen := fs.Int("randlen", 40, "")
	replay := fs.String("replay", "", "")
	fs.Parse(args)
	rnd := newRand(*seed)
	out := newNdjson(*outPath)
	out.watchdog(30*time.Second, func() obj {
		return obj{"op": "hang", "k": "-", "h": 0, "v": 0, "x": "-", "s": "-", "res": false, "panic": false, "obs": obj{}}
	})
	defer out.close()
	if *replay != "" {
		run := newStRun()
		for _, e := range readNdjson(*replay) {
			switch e["op"] {
			case "pop":
				continue
			case "reset":
				run = newStRun()
				out.emit(obj{"op": "reset"})
			default:
				o := stOp{e["op"].(string), e["k"].(string), int(e["h"].(float64)), int(e["v"].(float64)), e["x"].(string), e["s"].(string)}
				res, p := run.apply(o)
				out.emit(o.line(res, p, run.obs()))
			}
		}
		fmt.Printf("lines=%d\n", out.n)
		return 0
	}
	var ops []stOp
	for _, h := range stHeights {
		for _, v := range stViews {
			for _, x := range stHashes {
				for _, s := range stSenders {
					for _, k := range []string{"PP", "P", "C"} {
						ops = append(ops, stOp{"store", k, h, v, x, s})
					}
				}
			}
			for _, s := range stSenders {
				ops = append(ops, stOp{"store", "VC", h, v, "a", s})
			}
		}
	}
	for h := 0; h <= 3; h++ {
		ops = append(ops, stOp{"clear", "-", h, 0, "a", "p"})
	}
	nodes := 0
	var walk func(path []stOp)
	walk = func(path []stOp) {
		if len(path) == *depth {
			return
		}
		for _, o := range ops {
			run := newStRun()
			for _, p := range path {
				run.apply(p)
			}
			res, pn := run.apply(o)
			out.emit(o.line(res, pn, run.obs()))
			nodes++
			walk(append(path, o))
			out.emit(obj{"op": "pop"})
		}
	}
	walk(nil)
	for i := 0; i < *nRand; i++ {
		out.emit(obj{"op": "reset"})
		run := newStRun()
		for j := 0; j < *randLen; j++ {
			o := ops[rnd.Intn(len(ops))]
			if o.op == "clear" && rnd.Intn(6) != 0 {
				continue
			}
			res, pn := run.apply(o)
			out.emit(o.line(res, pn, run.obs()))
		}
	}
	fmt.Printf("lines=%d tree_nodes=%d ops=%d\n", out.n, nodes, len(ops))
	return 0
}
