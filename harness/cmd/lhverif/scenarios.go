package main

// Directed schedules ("attack library"): each one drives the real nodes into the situation a guard
// exists for and then lets the adversary try to get past it.  Same trace format as the random
// scheduler, validated by the same Trace_Cluster.tla.

import (
	"flag"
	"fmt"
	"sort"

	"github.com/orbs-network/lean-helix-go/services/interfaces"
	"github.com/orbs-network/lean-helix-go/spec/types/go/primitives"
	"github.com/orbs-network/lean-helix-go/spec/types/go/protocol"
)

func init() { register("scenarios", cmdScenarios) }

type sc struct {
	*run
	name   string
	budget int // steps (deliveries, timeouts) the schedule may still take; negative: no limit (the liveness driver cuts schedules short)
	spent  int // steps taken so far
}

func (s *sc) spend() bool {
	if s.budget == 0 {
		return false
	}
	s.spent++
	if s.budget > 0 {
		s.budget--
	}
	return true
}

func (s *sc) node(i int) *cnode { return s.cl.nodes[i] }

func kindOf(raw *interfaces.ConsensusRawMessage) string {
	rd := protocol.LeanhelixContentReader(raw.Content)
	switch {
	case rd.IsMessagePreprepareMessage():
		return "PP"
	case rd.IsMessagePrepareMessage():
		return "P"
	case rd.IsMessageCommitMessage():
		return "C"
	case rd.IsMessageViewChangeMessage():
		return "VC"
	case rd.IsMessageNewViewMessage():
		return "NV"
	}
	return "BAD"
}

// flush delivers pending messages matching pred (in order) until none is left; returns how many.
func (s *sc) flush(pred func(p pending, kind string) bool) int {
	n := 0
	for guard := 0; guard < 2000; guard++ {
		if s.allDone() {
			return n
		}
		found := -1
		for i, p := range s.pool {
			if pred(p, kindOf(p.raw)) {
				found = i
				break
			}
		}
		if found < 0 {
			return n
		}
		if !s.spend() {
			return n
		}
		p := s.pool[found]
		s.pool = append(s.pool[:found], s.pool[found+1:]...)
		s.deliverTo(s.cl.nodes[p.to], p.raw, "deliver", p.from, "")
		n++
	}
	return n
}

// flushOne delivers the first pending message matching pred (0 if none); flushAll all of them, ignoring allDone
func (s *sc) flushOne(pred func(p pending, kind string) bool) int {
	for i, p := range s.pool {
		if pred(p, kindOf(p.raw)) {
			if !s.spend() {
				return 0
			}
			s.pool = append(s.pool[:i], s.pool[i+1:]...)
			s.deliverTo(s.cl.nodes[p.to], p.raw, "deliver", p.from, "")
			return 1
		}
	}
	return 0
}

func (s *sc) flushAll(pred func(p pending, kind string) bool) {
	for guard := 0; guard < 3000 && s.flushOne(pred) == 1; guard++ {
	}
}

// byzFollows: the Byzantine member idx prepares and commits whatever honest nodes proposed in view v
func (s *sc) byzFollows(idx int, v uint64) {
	var blk *vBlock
	for _, pp := range s.adv.ppSeen {
		if uint64(pp.View()) == v {
			if vb, ok := pp.Block().(*vBlock); ok {
				blk = vb
			}
		}
	}
	if blk == nil {
		return
	}
	for _, n := range s.honest() {
		s.inject(n.idx, s.adv.mkP(ref(protocol.LEAN_HELIX_PREPARE, blk.height, v, blk), s.cl.ids[idx], ""), "p_byz_or_outsider")
	}
	s.flush(kinds("P"))
	for _, n := range s.honest() {
		s.inject(n.idx, s.adv.mkC(ref(protocol.LEAN_HELIX_COMMIT, blk.height, v, blk), s.cl.ids[idx], "", ""), "c_byz_or_outsider")
	}
	s.flush(kinds("C"))
}

func (s *sc) dropAll(pred func(p pending, kind string) bool) {
	var keep []pending
	for _, p := range s.pool {
		if !pred(p, kindOf(p.raw)) {
			keep = append(keep, p)
		}
	}
	s.pool = keep
}

func (s *sc) timeout(i int) {
	n := s.node(i)
	if !s.spend() {
		return
	}
	if n.timeout() {
		s.record(n, "timeout", obj{"k": "-"}, nil)
	}
}

func (s *sc) inject(i int, raw *interfaces.ConsensusRawMessage, tmpl string) {
	if !s.spend() {
		return
	}
	s.tmpl[tmpl]++
	s.deliverTo(s.node(i), raw, "deliver", "byz", tmpl)
}

func any(p pending, k string) bool { return true }
func kinds(ks ...string) func(p pending, k string) bool {
	return func(p pending, k string) bool {
		for _, x := range ks {
			if x == k {
				return true
			}
		}
		return false
	}
}

// lockAtView0: committee [n0..n3], leader of view 0 is n0 (honest); n0, n2, n3 become prepared on
// n0's block; every COMMIT is lost, so nobody commits.  n1 is Byzantine (leader of view 1).
func (s *sc) lockAtView0() *vBlock {
	s.startNodes()
	s.flush(kinds("PP"))
	s.flush(kinds("P"))
	s.dropAll(kinds("C"))
	for _, pp := range s.adv.ppSeen {
		if vb, ok := pp.Block().(*vBlock); ok {
			return vb
		}
	}
	return nil
}

func (s *sc) genuineVotesFor(h, v uint64) []*protocol.ViewChangeMessageContentBuilder {
	var out []*protocol.ViewChangeMessageContentBuilder
	seen := map[string]bool{}
	for _, m := range s.adv.vcSeen {
		if uint64(m.BlockHeight()) == h && uint64(m.View()) == v && !seen[string(m.SenderMemberId())] {
			seen[string(m.SenderMemberId())] = true
			out = append(out, genuineVote(m))
		}
	}
	return out
}

func (s *sc) byzVote(h, v uint64, idx int) *protocol.ViewChangeMessageContentBuilder {
	return s.adv.voteBuilder(voteD{ht: protocol.LEAN_HELIX_VIEW_CHANGE, inst: clusterInstance, h: h, v: v, sender: s.cl.ids[idx]})
}

var scenarioTable = map[string]func(s *sc){
	// H3: Byzantine leader of view 1 re-uses genuine locked votes but signs a proposal header for another hash
	"nv_header_hash_differs_from_proven_hash": func(s *sc) {
		a := s.lockAtView0()
		for _, i := range []int{0, 2, 3} {
			s.timeout(i)
		}
		votes := append(s.genuineVotesFor(1, 1), s.byzVote(1, 1, 1))
		z := s.adv.newBody(s.run, 1, false)
		d := nvD{inst: clusterInstance, h: 1, v: 1, sender: s.cl.ids[1], votes: votes, pp: ref(protocol.LEAN_HELIX_PREPREPARE, 1, 1, z), ppBy: s.cl.ids[1]}
		for _, i := range []int{0, 2, 3} {
			s.inject(i, s.adv.mkNV(d, a), "nv_header_hash_not_proven_hash")
		}
		s.flush(any)
	},
	// H1: Byzantine leader of view 1 drops the lock: votes claimed for honest members without signatures
	"nv_unauthenticated_votes_drop_lock": func(s *sc) {
		s.lockAtView0()
		for _, i := range []int{0, 2, 3} {
			s.timeout(i)
		}
		s.dropAll(kinds("VC"))
		var votes []*protocol.ViewChangeMessageContentBuilder
		for _, i := range []int{0, 2, 3} {
			votes = append(votes, s.adv.voteBuilder(voteD{ht: protocol.LEAN_HELIX_VIEW_CHANGE, inst: clusterInstance, h: 1, v: 1, sender: s.cl.ids[i]}))
		}
		votes = append(votes, s.byzVote(1, 1, 1))
		z := s.adv.newBody(s.run, 1, false)
		d := nvD{inst: clusterInstance, h: 1, v: 1, sender: s.cl.ids[1], votes: votes, pp: ref(protocol.LEAN_HELIX_PREPREPARE, 1, 1, z), ppBy: s.cl.ids[1]}
		for _, i := range []int{0, 2, 3} {
			s.inject(i, s.adv.mkNV(d, z), "nv_unauthenticated_votes")
		}
		s.flush(any)
	},
	// H2: standalone PREPREPARE in view 1 to nodes that reached view 1 by timeout (known finding)
	"standalone_preprepare_after_timeout": func(s *sc) {
		s.lockAtView0()
		for _, i := range []int{0, 2, 3} {
			s.timeout(i)
		}
		s.dropAll(kinds("VC"))
		z := s.adv.newBody(s.run, 1, false)
		for _, i := range []int{0, 2, 3} {
			s.inject(i, s.adv.mkPP(ref(protocol.LEAN_HELIX_PREPREPARE, 1, 1, z), s.cl.ids[1], "", z), "pp_standalone_highview")
		}
		s.flush(any)
	},
	// H2 end to end (known finding): n0 commits A in view 0; n2, n3 reach view 1 by timeout and accept a
	// standalone PREPREPARE for another block from the Byzantine leader of view 1
	"fork_via_standalone_preprepare": func(s *sc) {
		s.startNodes()
		s.flush(kinds("PP"))
		s.flush(kinds("P"))
		s.flush(func(p pending, k string) bool { return k == "C" && p.to == 0 })
		s.dropAll(kinds("C"))
		for _, i := range []int{2, 3} {
			s.timeout(i)
		}
		s.dropAll(kinds("VC"))
		z := s.adv.newBody(s.run, 1, false)
		for _, i := range []int{2, 3} {
			s.inject(i, s.adv.mkPP(ref(protocol.LEAN_HELIX_PREPREPARE, 1, 1, z), s.cl.ids[1], "", z), "pp_standalone_highview")
		}
		s.flush(kinds("P", "C"))
		for _, i := range []int{2, 3} {
			s.inject(i, s.adv.mkC(ref(protocol.LEAN_HELIX_COMMIT, 1, 1, z), s.cl.ids[1], "", ""), "c_byz_or_outsider")
		}
		s.flush(kinds("C"))
	},
	// the COMMIT quorum of view 0 completes at n2 only after n2 moved to view 1 and (finding H2) stored a standalone
	// PREPREPARE of the Byzantine leader of view 1 for another block: what n2 hands to its commit callback must still
	// be the block the COMMITs certify
	"late_commit_quorum_after_later_view_proposal": func(s *sc) {
		s.startNodes()
		s.flush(kinds("PP"))
		s.flush(kinds("P"))
		s.flush(func(p pending, k string) bool { return k == "C" && p.to != 2 })
		s.timeout(2)
		s.dropAll(kinds("VC"))
		z := s.adv.newBody(s.run, 1, false)
		s.inject(2, s.adv.mkPP(ref(protocol.LEAN_HELIX_PREPREPARE, 1, 1, z), s.cl.ids[1], "", z), "pp_standalone_highview")
		s.dropAll(kinds("P"))
		s.flush(func(p pending, k string) bool { return k == "C" && p.to == 2 })
		s.flush(any)
	},
	// the Byzantine leader n2 of view 2 fabricates a "proof of view 2" for block A out of its own PREPREPARE(2, A) and the
	// genuine PREPAREs n1 and n3 signed for A in view 0 (where nobody prepared).  Meanwhile B was prepared in view 1 and
	// committed by n0.  The honest leader n3 of view 3 must not count that vote: it would outrank the real lock on B.
	"fork_via_proof_with_prepares_of_older_view": func(s *sc) {
		s.startNodes()
		s.flush(kinds("PP"))
		var a *vBlock
		for _, pp := range s.adv.ppSeen {
			if vb, ok := pp.Block().(*vBlock); ok && pp.View() == 0 {
				a = vb
			}
		}
		s.dropAll(any) // the PREPAREs for A are lost (the adversary has seen them)
		for _, i := range []int{0, 1, 3} {
			s.timeout(i)
		}
		s.flush(kinds("VC"))
		s.flush(kinds("NV"))
		s.flush(kinds("P"))
		s.flush(func(p pending, k string) bool { return k == "C" && p.to == 0 }) // n0 commits B
		s.dropAll(kinds("C"))
		for _, v := range []int{2, 3} {
			_ = v
			s.timeout(1)
			s.timeout(3)
			if v == 2 {
				s.dropAll(kinds("VC")) // the leader of view 2 is Byzantine and stays silent
			}
		}
		s.flush(kinds("VC"))
		if a == nil {
			return
		}
		pr := proofD{present: true, pp: ref(protocol.LEAN_HELIX_PREPREPARE, 1, 2, a), ppBy: s.cl.ids[2], p: ref(protocol.LEAN_HELIX_PREPARE, 1, 0, a),
			pBy: []primitives.MemberId{s.cl.ids[1], s.cl.ids[3]}, pModes: []string{"", ""}}
		s.inject(3, s.adv.mkVC(voteD{ht: protocol.LEAN_HELIX_VIEW_CHANGE, inst: clusterInstance, h: 1, v: 3, sender: s.cl.ids[2], proof: pr}, a), "vc_proof_prepares_of_older_view")
		s.flush(kinds("NV"))
		s.byzFollows(2, 3)
		s.flush(any)
	},
	// H6: genuine locked votes reach the (unlocked) honest leader of view 2 with their blocks stripped off
	"vote_with_proof_but_block_removed": func(s *sc) {
		s.startNodes()
		s.flush(kinds("PP"))
		s.flush(func(p pending, k string) bool { return k == "P" && p.to != 2 }) // n2 never sees the PREPAREs: it does not lock
		s.dropAll(kinds("P", "C"))
		for _, i := range []int{0, 2, 3} {
			s.timeout(i) // view 1 (Byzantine leader stays silent)
		}
		s.dropAll(kinds("VC"))
		for _, i := range []int{0, 2, 3} {
			s.timeout(i) // view 2, leader n2
		}
		var stripped []pending
		for _, p := range s.pool {
			if kindOf(p.raw) == "VC" && p.to == 2 {
				stripped = append(stripped, p)
			}
		}
		s.dropAll(kinds("VC"))
		for _, p := range stripped {
			s.inject(2, &interfaces.ConsensusRawMessage{Content: p.raw.Content, Block: nil}, "mut_vc_block_removed")
		}
		s.inject(2, s.adv.mkVC(voteD{ht: protocol.LEAN_HELIX_VIEW_CHANGE, inst: clusterInstance, h: 1, v: 2, sender: s.cl.ids[1]}, nil), "vc_no_proof")
		s.flush(any)
	},
	// H1 end to end: n0 commits A in view 0; the Byzantine leader of view 1 makes n2 and n3 drop their lock
	// with a NEW_VIEW whose votes nobody signed, and they commit another block
	"fork_via_unauthenticated_votes": func(s *sc) {
		s.startNodes()
		s.flush(kinds("PP"))
		s.flush(kinds("P"))
		s.flush(func(p pending, k string) bool { return k == "C" && p.to == 0 })
		s.dropAll(kinds("C"))
		for _, i := range []int{2, 3} {
			s.timeout(i)
		}
		s.dropAll(kinds("VC"))
		var votes []*protocol.ViewChangeMessageContentBuilder
		for _, i := range []int{0, 2, 3} {
			votes = append(votes, s.adv.voteBuilder(voteD{ht: protocol.LEAN_HELIX_VIEW_CHANGE, inst: clusterInstance, h: 1, v: 1, sender: s.cl.ids[i]}))
		}
		votes = append(votes, s.byzVote(1, 1, 1))
		z := s.adv.newBody(s.run, 1, false)
		d := nvD{inst: clusterInstance, h: 1, v: 1, sender: s.cl.ids[1], votes: votes, pp: ref(protocol.LEAN_HELIX_PREPREPARE, 1, 1, z), ppBy: s.cl.ids[1]}
		for _, i := range []int{2, 3} {
			s.inject(i, s.adv.mkNV(d, z), "nv_unauthenticated_votes")
		}
		s.flush(kinds("P"))
		for _, i := range []int{2, 3} {
			s.inject(i, s.adv.mkP(ref(protocol.LEAN_HELIX_PREPARE, 1, 1, z), s.cl.ids[1], ""), "p_byz_or_outsider")
		}
		s.flush(kinds("P", "C"))
		for _, i := range []int{2, 3} {
			s.inject(i, s.adv.mkC(ref(protocol.LEAN_HELIX_COMMIT, 1, 1, z), s.cl.ids[1], "", ""), "c_byz_or_outsider")
		}
		s.flush(kinds("C"))
	},
	// H15: Byzantine vote without proof but with a block of its choice, to the honest leader of view 1 (n1 honest here)
	"vote_with_block_but_no_proof": func(s *sc) {
		s.startNodes()
		s.dropAll(any)
		for _, i := range []int{1, 2, 3} {
			s.timeout(i) // view 1, leader n1 (honest in this scenario); n0 is Byzantine
		}
		z := s.adv.newBody(s.run, 1, false)
		s.inject(1, s.adv.mkVC(voteD{ht: protocol.LEAN_HELIX_VIEW_CHANGE, inst: clusterInstance, h: 1, v: 1, sender: s.cl.ids[0]}, z), "vc_no_proof_with_block")
		s.flush(any)
	},
	// weights 1,4,3,2: the leader n1 of view 1 (4) and the Byzantine n2 (3) alone hold quorum weight 7.  n2 votes with a
	// block attached (one every consumer would reject) and no proof; n1 must not be elected by it, let alone re-propose and
	// commit that block, which no correct node ever validated.
	"heavy_pair_vote_with_unvalidated_block_but_no_proof": func(s *sc) {
		s.startNodes()
		s.dropAll(any)
		s.timeout(1)
		x := s.adv.newBody(s.run, 1, true)
		s.inject(1, s.adv.mkVC(voteD{ht: protocol.LEAN_HELIX_VIEW_CHANGE, inst: clusterInstance, h: 1, v: 1, sender: s.cl.ids[2]}, x), "vc_no_proof_with_block")
		// the Byzantine member follows whatever hash n1 signed in its proposal (if it made one)
		for _, pp := range s.adv.ppSeen {
			if pp.View() == 1 && pp.SenderMemberId().Equal(s.cl.ids[1]) {
				hash := append(primitives.BlockHash{}, pp.Content().SignedHeader().BlockHash()...)
				s.dropAll(kinds("NV"))
				s.inject(1, s.adv.mkP(refD{ht: protocol.LEAN_HELIX_PREPARE, inst: clusterInstance, h: 1, v: 1, hash: hash}, s.cl.ids[2], ""), "p_byz_or_outsider")
				s.dropAll(kinds("C"))
				s.inject(1, s.adv.mkC(refD{ht: protocol.LEAN_HELIX_COMMIT, inst: clusterInstance, h: 1, v: 1, hash: hash}, s.cl.ids[2], "", ""), "c_byz_or_outsider")
				break
			}
		}
		s.flush(any)
	},
	// the Byzantine leader of view 1 equivocates: a valid NEW_VIEW proposing A to n0, one proposing B to n2 and n3.
	// n0 then receives the PREPAREs n2 and n3 honestly sent for B: it holds no proposal for B and must not COMMIT B
	"equivocating_new_view_then_prepares_for_the_other_block": func(s *sc) {
		s.startNodes()
		s.dropAll(any)
		for _, i := range []int{0, 2, 3} {
			s.timeout(i)
		}
		votes := append(s.genuineVotesFor(1, 1), s.byzVote(1, 1, 1))
		s.dropAll(kinds("VC"))
		a, b := s.adv.newBody(s.run, 1, false), s.adv.newBody(s.run, 1, false)
		for _, t := range []struct {
			to  int
			blk *vBlock
		}{{0, a}, {2, b}, {3, b}} {
			d := nvD{inst: clusterInstance, h: 1, v: 1, sender: s.cl.ids[1], votes: votes, pp: ref(protocol.LEAN_HELIX_PREPREPARE, 1, 1, t.blk), ppBy: s.cl.ids[1]}
			s.inject(t.to, s.adv.mkNV(d, t.blk), "nv_equivocation")
		}
		s.flush(kinds("P"))
		s.flush(func(p pending, k string) bool { return k == "P" }) // duplicates change nothing
		s.flush(any)
	},
	// honest lock carried through two view changes: leader of view 1 Byzantine and silent, leader of view 2 honest
	"lock_survives_two_elections": func(s *sc) {
		s.lockAtView0()
		for _, i := range []int{0, 2, 3} {
			s.timeout(i)
		}
		s.dropAll(kinds("VC"))
		for _, i := range []int{0, 2, 3} {
			s.timeout(i)
		}
		s.inject(2, s.adv.mkVC(voteD{ht: protocol.LEAN_HELIX_VIEW_CHANGE, inst: clusterInstance, h: 1, v: 2, sender: s.cl.ids[1]}, nil), "vc_no_proof")
		s.flush(any)
	},
	// one node commits A in view 0; the others are prepared on A, go through view 1 (Byzantine leader silent) into
	// view 2 (honest leader n2); the Byzantine member votes, prepares and commits whatever gets proposed there
	"commit_at_one_node_then_two_elections": func(s *sc) {
		s.startNodes()
		s.flush(kinds("PP"))
		s.flush(kinds("P"))
		s.flush(func(p pending, k string) bool { return k == "C" && p.to == 0 })
		s.dropAll(kinds("C"))
		for _, i := range []int{2, 3} {
			s.timeout(i)
		}
		s.dropAll(kinds("VC"))
		for _, i := range []int{2, 3} {
			s.timeout(i)
		}
		s.inject(2, s.adv.mkVC(voteD{ht: protocol.LEAN_HELIX_VIEW_CHANGE, inst: clusterInstance, h: 1, v: 2, sender: s.cl.ids[1]}, nil), "vc_no_proof")
		s.flush(kinds("VC"))
		s.flush(kinds("NV"))
		s.byzFollows(1, 2)
	},
	// C07/C08: a "split" prepared proof, every signature genuine: the Byzantine leader of view 1 signs a proposal
	// reference for Y while the PREPAREs it collected are for X; offered to the honest leader of view 2
	"split_proof_vote": func(s *sc) {
		s.startNodes()
		s.dropAll(any)
		for _, i := range []int{0, 2, 3} {
			s.timeout(i)
		}
		x := s.adv.newBody(s.run, 1, false)
		votes := append(s.genuineVotesFor(1, 1), s.byzVote(1, 1, 1))
		d := nvD{inst: clusterInstance, h: 1, v: 1, sender: s.cl.ids[1], votes: votes, pp: ref(protocol.LEAN_HELIX_PREPREPARE, 1, 1, x), ppBy: s.cl.ids[1]}
		s.dropAll(kinds("VC"))
		for _, i := range []int{0, 2, 3} {
			s.inject(i, s.adv.mkNV(d, x), "nv")
		}
		s.dropAll(any) // the honest PREPAREs for (1, X) are captured, never delivered
		for _, i := range []int{0, 2, 3} {
			s.timeout(i) // view 2, leader n2
		}
		y := s.adv.newBody(s.run, 1, false)
		pr := proofD{present: true, pp: ref(protocol.LEAN_HELIX_PREPREPARE, 1, 1, y), ppBy: s.cl.ids[1], p: ref(protocol.LEAN_HELIX_PREPARE, 1, 1, x),
			pBy: []primitives.MemberId{s.cl.ids[0], s.cl.ids[2], s.cl.ids[3]}}
		s.inject(2, s.adv.mkVC(voteD{ht: protocol.LEAN_HELIX_VIEW_CHANGE, inst: clusterInstance, h: 1, v: 2, sender: s.cl.ids[1], proof: pr}, y), "vc_proof_split")
		s.flush(any)
	},
	// C04: Byzantine n0 leads views 0 and 4.  It proposes valid B in view 0, collects the PREPAREs, and in view 4 sends a
	// NEW_VIEW for a consumer-rejected block X whose "proof" splices its own PREPREPARE reference for X with the PREPAREs for B
	"spliced_proof_for_rejected_block": func(s *sc) {
		s.startNodes()
		b := s.adv.newBody(s.run, 1, false)
		for _, i := range []int{1, 2, 3} {
			s.inject(i, s.adv.mkPP(ref(protocol.LEAN_HELIX_PREPREPARE, 1, 0, b), s.cl.ids[0], "", b), "pp_leader")
		}
		s.dropAll(any) // PREPAREs for (0, B) are captured, never delivered: nobody is prepared
		for round := 0; round < 4; round++ {
			for _, i := range []int{1, 2, 3} {
				s.timeout(i)
			}
			s.dropAll(any)
		}
		x := s.adv.newBody(s.run, 1, true) // rejected by every correct node's validator
		pr := proofD{present: true, pp: ref(protocol.LEAN_HELIX_PREPREPARE, 1, 0, x), ppBy: s.cl.ids[0], p: ref(protocol.LEAN_HELIX_PREPARE, 1, 0, b),
			pBy: []primitives.MemberId{s.cl.ids[1], s.cl.ids[2], s.cl.ids[3]}}
		votes := append(s.genuineVotesFor(1, 4), s.adv.voteBuilder(voteD{ht: protocol.LEAN_HELIX_VIEW_CHANGE, inst: clusterInstance, h: 1, v: 4, sender: s.cl.ids[0], proof: pr}))
		d := nvD{inst: clusterInstance, h: 1, v: 4, sender: s.cl.ids[0], votes: votes, pp: ref(protocol.LEAN_HELIX_PREPREPARE, 1, 4, x), ppBy: s.cl.ids[0]}
		for _, i := range []int{1, 2, 3} {
			s.inject(i, s.adv.mkNV(d, x), "nv_byzproof_split")
		}
		s.flush(kinds("P"))
		s.flush(kinds("C"))
	},
	// C12: a valid NEW_VIEW whose block (which travels outside the signed part) was stripped, with a consumer that does
	// not object to a missing block; then PREPARE and COMMIT quorums for its hash
	"new_view_block_stripped_lenient_consumer": func(s *sc) {
		s.cl.lenient = true
		s.startNodes()
		s.dropAll(any)
		for _, i := range []int{0, 2, 3} {
			s.timeout(i)
		}
		votes := append(s.genuineVotesFor(1, 1), s.byzVote(1, 1, 1))
		s.dropAll(kinds("VC"))
		b := s.adv.newBody(s.run, 1, false)
		d := nvD{inst: clusterInstance, h: 1, v: 1, sender: s.cl.ids[1], votes: votes, pp: ref(protocol.LEAN_HELIX_PREPREPARE, 1, 1, b), ppBy: s.cl.ids[1]}
		for _, i := range []int{0, 2, 3} {
			s.inject(i, s.adv.mkNV(d, nil), "mut_nv_block_removed")
		}
		s.flush(kinds("P"))
		for _, n := range s.honest() {
			s.inject(n.idx, s.adv.mkP(ref(protocol.LEAN_HELIX_PREPARE, 1, 1, b), s.cl.ids[1], ""), "p_byz_or_outsider")
		}
		s.flush(kinds("P", "C"))
		for _, n := range s.honest() {
			s.inject(n.idx, s.adv.mkC(ref(protocol.LEAN_HELIX_COMMIT, 1, 1, b), s.cl.ids[1], "", ""), "c_byz_or_outsider")
		}
		s.flush(kinds("C"))
		// the node must still work: next view with a proper proposal
		for _, i := range []int{0, 2, 3} {
			s.timeout(i)
		}
		s.inject(2, s.adv.mkVC(voteD{ht: protocol.LEAN_HELIX_VIEW_CHANGE, inst: clusterInstance, h: 1, v: 2, sender: s.cl.ids[1]}, nil), "vc_no_proof")
		s.flush(any)
	},
	// C08: a prepared proof spliced from two views: PREPREPARE reference of view 1 (signed by its Byzantine leader)
	// with the genuine PREPAREs of view 0 for the same block, offered to the honest leader of view 2
	"proof_spliced_from_two_views": func(s *sc) {
		a := s.lockAtView0()
		for _, i := range []int{0, 2, 3} {
			s.timeout(i)
		}
		s.dropAll(kinds("VC"))
		for _, i := range []int{0, 2, 3} {
			s.timeout(i) // view 2, leader n2
		}
		s.dropAll(kinds("VC"))
		pr := proofD{present: true, pp: ref(protocol.LEAN_HELIX_PREPREPARE, 1, 1, a), ppBy: s.cl.ids[1], p: ref(protocol.LEAN_HELIX_PREPARE, 1, 0, a),
			pBy: []primitives.MemberId{s.cl.ids[2], s.cl.ids[3]}}
		s.inject(2, s.adv.mkVC(voteD{ht: protocol.LEAN_HELIX_VIEW_CHANGE, inst: clusterInstance, h: 1, v: 2, sender: s.cl.ids[1], proof: pr}, a), "vc_proof_mixview")
		s.flush(any)
	},
	// C01/C07: the Byzantine member leads views 1 and 5; it replays the genuine view-1 votes inside a NEW_VIEW for view 5
	"new_view_with_votes_of_older_view": func(s *sc) {
		s.startNodes()
		s.dropAll(any)
		for _, i := range []int{0, 2, 3} {
			s.timeout(i)
		}
		oldVotes := s.genuineVotesFor(1, 1)
		s.dropAll(kinds("VC"))
		a := s.adv.newBody(s.run, 1, false)
		d := nvD{inst: clusterInstance, h: 1, v: 1, sender: s.cl.ids[1], votes: append(append([]*protocol.ViewChangeMessageContentBuilder{}, oldVotes...), s.byzVote(1, 1, 1)),
			pp: ref(protocol.LEAN_HELIX_PREPREPARE, 1, 1, a), ppBy: s.cl.ids[1]}
		for _, i := range []int{0, 3} {
			s.inject(i, s.adv.mkNV(d, a), "nv")
		}
		s.flush(kinds("P"))
		s.inject(0, s.adv.mkP(ref(protocol.LEAN_HELIX_PREPARE, 1, 1, a), s.cl.ids[1], ""), "p_byz_or_outsider")
		s.flush(func(p pending, k string) bool { return k == "C" && p.to == 0 })
		s.inject(0, s.adv.mkC(ref(protocol.LEAN_HELIX_COMMIT, 1, 1, a), s.cl.ids[1], "", ""), "c_byz_or_outsider")
		s.dropAll(any) // n0 has committed A; n3 is prepared on A without the commits; n2 saw nothing of view 1
		b := s.adv.newBody(s.run, 1, false)
		var stale []*protocol.ViewChangeMessageContentBuilder
		for _, m := range s.adv.vcSeen {
			if uint64(m.View()) == 1 && (m.SenderMemberId().Equal(s.cl.ids[2]) || m.SenderMemberId().Equal(s.cl.ids[3])) {
				stale = append(stale, genuineVote(m))
			}
		}
		d5 := nvD{inst: clusterInstance, h: 1, v: 5, sender: s.cl.ids[1], votes: append(stale, s.byzVote(1, 5, 1)), pp: ref(protocol.LEAN_HELIX_PREPREPARE, 1, 5, b), ppBy: s.cl.ids[1]}
		for _, i := range []int{2, 3} {
			s.inject(i, s.adv.mkNV(d5, b), "nv_vote_other_view")
		}
		s.flush(kinds("P"))
		for _, i := range []int{2, 3} {
			s.inject(i, s.adv.mkP(ref(protocol.LEAN_HELIX_PREPARE, 1, 5, b), s.cl.ids[1], ""), "p_byz_or_outsider")
		}
		s.flush(kinds("P", "C"))
		for _, i := range []int{2, 3} {
			s.inject(i, s.adv.mkC(ref(protocol.LEAN_HELIX_COMMIT, 1, 5, b), s.cl.ids[1], "", ""), "c_byz_or_outsider")
		}
		s.flush(kinds("C"))
	},
	// C04/C03: genuine locked votes and a proposal header over the proven hash, but another block attached; the
	// receivers are prepared on the proven block themselves
	"new_view_block_swapped_under_genuine_proof": func(s *sc) {
		a := s.lockAtView0()
		for _, i := range []int{0, 2, 3} {
			s.timeout(i)
		}
		votes := append(s.genuineVotesFor(1, 1), s.byzVote(1, 1, 1))
		s.dropAll(kinds("VC"))
		x := s.adv.newBody(s.run, 1, true)
		d := nvD{inst: clusterInstance, h: 1, v: 1, sender: s.cl.ids[1], votes: votes, pp: ref(protocol.LEAN_HELIX_PREPREPARE, 1, 1, a), ppBy: s.cl.ids[1]}
		for _, i := range []int{0, 2, 3} {
			s.inject(i, s.adv.mkNV(d, x), "nv_block_mismatch")
		}
		s.flush(kinds("P"))
		for _, i := range []int{0, 2, 3} {
			s.inject(i, s.adv.mkP(ref(protocol.LEAN_HELIX_PREPARE, 1, 1, a), s.cl.ids[1], ""), "p_byz_or_outsider")
		}
		s.flush(kinds("P", "C"))
		for _, i := range []int{0, 2, 3} {
			s.inject(i, s.adv.mkC(ref(protocol.LEAN_HELIX_COMMIT, 1, 1, a), s.cl.ids[1], "", ""), "c_byz_or_outsider")
		}
		s.flush(kinds("C"))
	},
	// C09/C11: the Byzantine leader of view 1 sends its own PREPARE for view 1 while the node is still in view 0, then a
	// proper NEW_VIEW; the node prepares in view 1 and must still produce a valid lock proof when it leaves the view
	"leader_prepare_for_future_view": func(s *sc) {
		s.startNodes()
		s.dropAll(any)
		b := s.adv.newBody(s.run, 1, false)
		s.inject(3, s.adv.mkP(ref(protocol.LEAN_HELIX_PREPARE, 1, 1, b), s.cl.ids[1], ""), "p_leader_future_view")
		for _, i := range []int{0, 2, 3} {
			s.timeout(i)
		}
		votes := append(s.genuineVotesFor(1, 1), s.byzVote(1, 1, 1))
		s.dropAll(kinds("VC"))
		d := nvD{inst: clusterInstance, h: 1, v: 1, sender: s.cl.ids[1], votes: votes, pp: ref(protocol.LEAN_HELIX_PREPREPARE, 1, 1, b), ppBy: s.cl.ids[1]}
		for _, i := range []int{0, 2, 3} {
			s.inject(i, s.adv.mkNV(d, b), "nv")
		}
		s.flush(kinds("P"))
		s.dropAll(kinds("C"))
		for _, i := range []int{0, 2, 3} {
			s.timeout(i) // view 2, leader n2: the locked votes must be valid and counted
		}
		s.flush(any)
	},
	// C03/C08: before the nodes start height 1, the Byzantine leader n0 sends them its COMMIT for (1, 0, A) signed for
	// ANOTHER instance (valid share); it waits in the future cache; then height 1 runs normally on block A
	"future_commit_signed_for_other_instance": func(s *sc) {
		a := s.adv.newBody(s.run, 1, false)
		rf := ref(protocol.LEAN_HELIX_COMMIT, 1, 0, a)
		rf.inst = clusterInstance + 1
		for _, i := range []int{1, 2, 3} {
			s.inject(i, s.adv.mkC(rf, s.cl.ids[0], "", ""), "c_future_height_other_instance")
		}
		s.startNodes()
		for _, i := range []int{1, 2, 3} {
			s.inject(i, s.adv.mkPP(ref(protocol.LEAN_HELIX_PREPREPARE, 1, 0, a), s.cl.ids[0], "", a), "pp_leader")
		}
		s.flush(kinds("P"))
		s.flush(kinds("C"))
	},
	// C10: the honest leader of view 2 is elected while still in view 0 (votes of the others arrive before its own
	// timer fires); afterwards one of the votes is delivered again and a late Byzantine vote arrives
	"leader_elected_by_jump_then_more_votes": func(s *sc) {
		s.startNodes()
		s.dropAll(any)
		for round := 0; round < 2; round++ {
			for _, i := range []int{0, 3} {
				s.timeout(i)
			}
			if round == 0 {
				s.dropAll(kinds("VC"))
			}
		}
		var votes []pending
		for _, p := range s.pool {
			if kindOf(p.raw) == "VC" && p.to == 2 {
				votes = append(votes, p)
			}
		}
		s.flush(kinds("VC")) // n0's and n3's votes for view 2: not yet a quorum
		s.inject(2, s.adv.mkVC(voteD{ht: protocol.LEAN_HELIX_VIEW_CHANGE, inst: clusterInstance, h: 1, v: 2, sender: s.cl.ids[1]}, nil), "vc_no_proof")
		for _, p := range votes { // re-delivery of the same votes
			s.deliverTo(s.node(2), p.raw, "deliver", p.from, "dup")
		}
		s.inject(2, s.adv.mkVC(voteD{ht: protocol.LEAN_HELIX_VIEW_CHANGE, inst: clusterInstance, h: 1, v: 2, sender: s.cl.ids[1]}, nil), "vc_no_proof")
		s.flush(any)
	},
	// H13: signed headers with trailing bytes (signed as sent by the Byzantine member).  (a) its COMMIT ends up in the
	// block proof, (b) its PREPARE in a lock proof, (c) its vote in the honest leader's NEW_VIEW
	"noncanonical_commit_in_block_proof": func(s *sc) {
		s.startNodes()
		s.flush(kinds("PP"))
		var a *vBlock
		for _, pp := range s.adv.ppSeen {
			a, _ = pp.Block().(*vBlock)
		}
		for _, i := range []int{0, 2, 3} {
			s.inject(i, s.adv.mkPaddedC(ref(protocol.LEAN_HELIX_COMMIT, 1, 0, a), s.cl.ids[1]), "c_noncanonical")
		}
		s.flush(kinds("P"))
		s.flush(func(p pending, k string) bool { return k == "C" && p.from != "n3" }) // n3's COMMITs are slow: quorum = n0, n2 + Byzantine
		s.flush(any)
	},
	"noncanonical_prepare_in_lock_proof": func(s *sc) {
		s.startNodes()
		s.flush(kinds("PP"))
		var a *vBlock
		for _, pp := range s.adv.ppSeen {
			a, _ = pp.Block().(*vBlock)
		}
		for _, i := range []int{0, 2, 3} {
			s.inject(i, s.adv.mkPaddedP(ref(protocol.LEAN_HELIX_PREPARE, 1, 0, a), s.cl.ids[1]), "p_noncanonical")
		}
		s.flush(kinds("P"))
		s.dropAll(kinds("C"))
		for _, i := range []int{0, 2, 3} {
			s.timeout(i)
		}
		s.dropAll(kinds("VC"))
		for _, i := range []int{0, 2, 3} {
			s.timeout(i) // view 2, honest leader n2 must count the locked votes of n0 and n3
		}
		s.flush(any)
	},
	"noncanonical_vote_in_new_view": func(s *sc) {
		s.startNodes()
		s.dropAll(any)
		for round := 0; round < 2; round++ {
			for _, i := range []int{0, 2, 3} {
				s.timeout(i)
			}
			if round == 0 {
				s.dropAll(kinds("VC"))
			}
		}
		s.inject(2, s.adv.mkPaddedVC(voteD{ht: protocol.LEAN_HELIX_VIEW_CHANGE, inst: clusterInstance, h: 1, v: 2, sender: s.cl.ids[1]}, nil), "vc_noncanonical")
		s.flush(any) // n2 is elected with the Byzantine vote among the counted ones; its NEW_VIEW must be accepted by n0 and n3
	},
	// C10: a second, fully valid NEW_VIEW for the view the node is already in, proposing another block
	"second_new_view_same_view": func(s *sc) {
		s.startNodes()
		s.dropAll(any)
		for _, i := range []int{0, 2, 3} {
			s.timeout(i)
		}
		votes := append(s.genuineVotesFor(1, 1), s.byzVote(1, 1, 1))
		s.dropAll(kinds("VC"))
		for k := 0; k < 2; k++ {
			b := s.adv.newBody(s.run, 1, false)
			d := nvD{inst: clusterInstance, h: 1, v: 1, sender: s.cl.ids[1], votes: votes, pp: ref(protocol.LEAN_HELIX_PREPREPARE, 1, 1, b), ppBy: s.cl.ids[1]}
			for _, i := range []int{0, 2, 3} {
				s.inject(i, s.adv.mkNV(d, b), "nv")
			}
		}
		s.flush(any)
	},
	// all honest: the election of view 1 succeeds among n0, n1, n2 while n3 never timed out, so the NEW_VIEW with a fresh block
	// reaches a member that is still in view 0 (it must validate the proposal as the proposal of view 1's leader and follow)
	"new_view_reaches_member_that_has_not_timed_out": func(s *sc) {
		s.startNodes()
		s.dropAll(any) // n0's proposal is lost
		for _, i := range []int{0, 1, 2} {
			s.timeout(i)
		}
		s.flush(kinds("VC"))
		s.flush(kinds("NV"))
		s.flush(any)
	},
	// the same two views ahead: the election of view 1 fails, n0, n1, n2 go on to view 2, n3 is still in view 0
	"new_view_two_views_ahead_reaches_member_in_view_0": func(s *sc) {
		s.startNodes()
		s.dropAll(any)
		for round := 0; round < 2; round++ {
			for _, i := range []int{0, 1, 2} {
				s.timeout(i)
			}
			if round == 0 {
				s.dropAll(kinds("VC"))
			}
		}
		s.flush(kinds("VC"))
		s.flush(kinds("NV"))
		s.flush(any)
	},
	// C11/C08: n2 lags at height 1 while n0 and n1 are at height 2.  Its future cache receives the proposal of height 2, n1's
	// PREPARE and a PREPARE of the Byzantine member n3 for the same block signed for ANOTHER instance.  n2 then closes height 1,
	// drains the cache and becomes prepared at height 2; nobody commits, everybody times out: the vote of n2 must carry a proof
	// that the correct leader n1 of view 1 counts.
	"lagging_member_with_foreign_instance_prepare_in_its_future_cache": func(s *sc) {
		s.startNodes()
		s.flush(kinds("PP"))
		s.flush(kinds("P"))
		s.flush(func(p pending, k string) bool { return k == "C" && p.to != 2 }) // n0, n1 decide height 1 and start height 2
		s.flush(kinds("PP"))
		var b2 *vBlock
		for _, pp := range s.adv.ppSeen {
			if vb, ok := pp.Block().(*vBlock); ok && pp.BlockHeight() == 2 {
				b2 = vb
			}
		}
		if b2 == nil {
			return
		}
		rf := ref(protocol.LEAN_HELIX_PREPARE, 2, 0, b2)
		rf.inst = clusterInstance + 1
		s.inject(2, s.adv.mkP(rf, s.cl.ids[3], ""), "p_future_height_other_instance")
		s.flush(func(p pending, k string) bool { return k == "P" && p.to == 2 })
		s.flush(func(p pending, k string) bool { return k == "C" && p.to == 2 && msgHeight(p) == 1 }) // n2 closes height 1 and drains
		s.flush(kinds("P"))
		s.dropAll(kinds("C"))
		for _, i := range []int{0, 1, 2} {
			s.timeout(i)
		}
		s.flush(kinds("VC"))
		s.flush(any)
	},
	// C10/C03: n2 holds the proposal A but none of the PREPAREs; the Byzantine member n3 sends it a COMMIT for ANOTHER hash, then
	// the genuine COMMITs for A of n0 and n1 arrive: two of quorum three - n2 must neither send its COMMIT nor decide yet
	"byzantine_commit_for_another_hash_before_two_genuine_commits": func(s *sc) {
		s.startNodes()
		s.flush(kinds("PP"))
		s.flush(func(p pending, k string) bool { return k == "P" && p.to != 2 })
		b := s.adv.newBody(s.run, 1, false)
		s.inject(2, s.adv.mkC(ref(protocol.LEAN_HELIX_COMMIT, 1, 0, b), s.cl.ids[3], "", ""), "c_byz_or_outsider")
		s.flush(func(p pending, k string) bool { return k == "C" && p.to == 2 })
		s.flush(any)
	},
	// C08: every correct member is prepared on A; n1 has its own COMMIT and the genuine one of n0.  The Byzantine member n3 sends
	// n1 a COMMIT for A with a valid header signature but with the random-seed share copied from n0's COMMIT: not a valid share
	// of n3, so it must not be stored, must not complete the quorum and must not end up in a block proof
	"byzantine_commit_with_share_copied_from_a_genuine_commit": func(s *sc) {
		s.startNodes()
		s.flush(kinds("PP"))
		s.flush(kinds("P"))
		s.flushOne(func(p pending, k string) bool { return k == "C" && p.to == 1 && p.from == "n0" })
		var a *vBlock
		for _, pp := range s.adv.ppSeen {
			if vb, ok := pp.Block().(*vBlock); ok {
				a = vb
			}
		}
		if a == nil {
			return
		}
		s.inject(1, s.adv.mkC(ref(protocol.LEAN_HELIX_COMMIT, 1, 0, a), s.cl.ids[3], "", "stolen"), "c_share_of_another_member")
		s.flush(any)
	},
	// C01: the Byzantine leader n0 of view 0 equivocates: PREPREPARE(A) to n1 only, PREPREPARE(B) to n2 and n3, which prepare B
	// (with n0's help) and decide it.  n1, still holding A, then receives the COMMIT quorum for B: it must not decide anything
	"equivocating_first_leader_commit_quorum_for_the_other_block": func(s *sc) {
		s.startNodes()
		a, b := s.adv.newBody(s.run, 1, false), s.adv.newBody(s.run, 1, false)
		s.inject(1, s.adv.mkPP(ref(protocol.LEAN_HELIX_PREPREPARE, 1, 0, a), s.cl.ids[0], "", a), "pp_leader")
		for _, i := range []int{2, 3} {
			s.inject(i, s.adv.mkPP(ref(protocol.LEAN_HELIX_PREPREPARE, 1, 0, b), s.cl.ids[0], "", b), "pp_leader")
		}
		s.flush(kinds("P"))
		for _, i := range []int{1, 2, 3} {
			s.inject(i, s.adv.mkC(ref(protocol.LEAN_HELIX_COMMIT, 1, 0, b), s.cl.ids[0], "", ""), "c_byz_or_outsider")
		}
		s.flush(kinds("C"))
		s.flush(any)
	},
	// C01 / C10 (the COMMITs of a view the node has left): n0 is Byzantine and leads view 0; it proposes X to n2 and n3.  n3 gets the
	// PREPARE quorum (n0, n2, itself), is prepared and sends COMMIT(0, X); n2 does not see n3's PREPARE and stays unprepared.  n1 and n2
	// time out; n1 is elected by n1, n2 and the Byzantine n0 (a quorum that legitimately leaves out the only lock holder n3) and proposes
	// a fresh Y; n2 joins view 1, prepares Y (with n0's PREPARE) and sends COMMIT(1, Y).  Then the late COMMIT(0, X) of n3 and of n0
	// reach n2: weight 2, no quorum - n2 must not decide X.  n1 completes the COMMIT(1, Y) quorum (n1, n2, n0) and decides Y.
	"late_commits_of_a_left_view_reach_a_member_that_prepared_the_next_view": func(s *sc) {
		s.startNodes()
		x := s.adv.newBody(s.run, 1, false)
		for _, i := range []int{2, 3} {
			s.inject(i, s.adv.mkPP(ref(protocol.LEAN_HELIX_PREPREPARE, 1, 0, x), s.cl.ids[0], "", x), "pp_leader")
		}
		s.flush(func(p pending, k string) bool { return k == "P" && p.to == 3 }) // n2's PREPARE reaches n3: prepared, COMMIT(0, X) in the pool
		s.dropAll(kinds("P"))
		held := []pending{} // n3's COMMIT(0, X) is delayed
		for _, p := range s.pool {
			if kindOf(p.raw) == "C" && p.to == 2 {
				held = append(held, p)
			}
		}
		s.dropAll(kinds("C"))
		s.timeout(1)
		s.timeout(2)
		s.flush(func(p pending, k string) bool { return k == "VC" && p.to == 1 })
		s.inject(1, s.adv.mkVC(voteD{ht: protocol.LEAN_HELIX_VIEW_CHANGE, inst: clusterInstance, h: 1, v: 1, sender: s.cl.ids[0]}, nil), "vc_no_proof")
		s.flush(func(p pending, k string) bool { return k == "NV" && p.to == 2 }) // n2 joins view 1 and sends PREPARE(1, Y)
		var y *vBlock
		for _, nv := range s.adv.nvSeen {
			if vb, ok := nv.Block().(*vBlock); ok {
				y = vb
			}
		}
		if y == nil {
			return
		}
		s.inject(2, s.adv.mkP(ref(protocol.LEAN_HELIX_PREPARE, 1, 1, y), s.cl.ids[0], ""), "p_byz_or_outsider") // n1 (leader) + n2 + n0: prepared, COMMIT(1, Y)
		s.flush(func(p pending, k string) bool { return k == "P" && p.to == 1 })
		s.inject(1, s.adv.mkP(ref(protocol.LEAN_HELIX_PREPARE, 1, 1, y), s.cl.ids[0], ""), "p_byz_or_outsider")
		// the late COMMITs of view 0
		for _, p := range held {
			s.pool = append(s.pool, p)
		}
		s.flush(func(p pending, k string) bool { return k == "C" && p.to == 2 && p.from == "n3" })
		s.inject(2, s.adv.mkC(ref(protocol.LEAN_HELIX_COMMIT, 1, 0, x), s.cl.ids[0], "", ""), "c_byz_or_outsider")
		// view 1 completes at n1
		s.flush(func(p pending, k string) bool { return k == "C" && p.to == 1 })
		s.inject(1, s.adv.mkC(ref(protocol.LEAN_HELIX_COMMIT, 1, 1, y), s.cl.ids[0], "", ""), "c_byz_or_outsider")
		s.flush(any)
	},
	// C09 (leader side, all honest; n... nobody Byzantine acts): n2 becomes prepared on B0 in view 0 and is then cut off.  n0, n1, n3 time
	// out; n1 is elected without any lock among its votes and proposes a fresh B1, on which n3 becomes prepared in view 1.  Everybody
	// times out again; n2 - leader of view 2, holding its OWN older lock (0, B0) - is elected by its own vote and those of n3 (lock
	// (1, B1)) and n0: it must re-propose B1, the block of the HIGHEST proof, not the block it is locked on itself.
	"elected_leader_holds_an_older_lock_than_one_of_its_voters": func(s *sc) {
		s.startNodes()
		s.flush(kinds("PP"))
		s.flush(func(p pending, k string) bool { return k == "P" && p.to == 2 }) // only n2 sees the PREPAREs: prepared on B0
		s.dropAll(any)
		for _, i := range []int{0, 1, 3} {
			s.timeout(i)
		}
		s.flush(func(p pending, k string) bool { return k == "VC" && p.to == 1 })
		s.flush(func(p pending, k string) bool { return k == "NV" && p.to != 2 })
		s.flush(func(p pending, k string) bool { return k == "P" && p.to == 3 }) // only n3 becomes prepared on B1
		s.dropAll(any)
		s.timeout(2) // n2: view 1 (its vote for view 1 is lost)
		s.dropAll(any)
		for _, i := range []int{2, 3, 0} {
			s.timeout(i)
		}
		s.flush(func(p pending, k string) bool { return k == "VC" && p.to == 2 })
		s.flush(any)
	},
	// C03 / C01 (messages of several views in one log): n2 alone becomes prepared in view 0 (on A); everybody times out.  The
	// Byzantine n1 leads view 1 and equivocates with two VALID NEW_VIEWs built on the same lock-free votes (n0, n3 and its own - a
	// quorum that leaves out the lock holder): fresh block B to n0 and n3, fresh block C to n2.  n0 and n3 prepare and decide B
	// (with n1's COMMIT); n2 accepted C but is not prepared in view 1.  The COMMIT quorum for (1, B) then reaches n2, which holds a
	// prepared certificate of view 0 and the proposal C of view 1: it must not hand anything to its consumer.
	"commit_quorum_of_view_1_reaches_a_member_locked_in_view_0_holding_another_proposal_of_view_1": func(s *sc) {
		s.startNodes()
		s.flush(kinds("PP"))
		s.flush(func(p pending, k string) bool { return k == "P" && p.to == 2 }) // only n2 sees the PREPAREs: prepared on A
		s.dropAll(any)
		for _, i := range []int{0, 2, 3} {
			s.timeout(i)
		}
		var votes []*protocol.ViewChangeMessageContentBuilder
		for _, m := range s.adv.vcSeen {
			if uint64(m.View()) == 1 && (m.SenderMemberId().Equal(s.cl.ids[0]) || m.SenderMemberId().Equal(s.cl.ids[3])) {
				votes = append(votes, genuineVote(m))
			}
		}
		votes = append(votes, s.byzVote(1, 1, 1))
		s.dropAll(any)
		b, c := s.adv.newBody(s.run, 1, false), s.adv.newBody(s.run, 1, false)
		nv := func(x *vBlock) *interfaces.ConsensusRawMessage {
			return s.adv.mkNV(nvD{inst: clusterInstance, h: 1, v: 1, sender: s.cl.ids[1], votes: votes, pp: ref(protocol.LEAN_HELIX_PREPREPARE, 1, 1, x), ppBy: s.cl.ids[1]}, x)
		}
		s.inject(2, nv(c), "nv")
		s.dropAll(any) // n2's PREPARE(C) goes nowhere
		for _, i := range []int{0, 3} {
			s.inject(i, nv(b), "nv")
		}
		s.flush(func(p pending, k string) bool { return k == "P" && p.to != 2 }) // n0 and n3 are prepared on B
		for _, i := range []int{0, 3} {
			s.inject(i, s.adv.mkC(ref(protocol.LEAN_HELIX_COMMIT, 1, 1, b), s.cl.ids[1], "", ""), "c_byz_or_outsider")
		}
		s.flush(func(p pending, k string) bool { return k == "C" && p.to != 2 }) // n0 and n3 decide B
		s.flush(func(p pending, k string) bool { return k == "C" && p.to == 2 }) // the COMMITs for (1, B) reach n2
		s.inject(2, s.adv.mkC(ref(protocol.LEAN_HELIX_COMMIT, 1, 1, b), s.cl.ids[1], "", ""), "c_byz_or_outsider")
		s.flush(any)
	},
	// C10 (environment fault, nobody Byzantine acts: n3 is silent): view 0 is lost; n0 and n2 time out and vote; n1 is elected (its own vote
	// makes the quorum) - the transport reports a FAILURE for its NEW_VIEW broadcast.  Then one more copy of a vote for view 1 arrives
	// (n0's vote, duplicated by the network) and n2's vote once more: n1 must not run the election of view 1 a second time - a
	// second NEW_VIEW would carry another fresh block (two proposals signed for one view).
	"new_view_broadcast_reports_a_failure_then_votes_of_that_view_arrive_again": func(s *sc) {
		s.startNodes()
		s.dropAll(any)
		for _, i := range []int{0, 1, 2} {
			s.timeout(i)
		}
		var votes []pending
		for _, p := range s.pool {
			if kindOf(p.raw) == "VC" && p.to == 1 {
				votes = append(votes, p)
			}
		}
		s.node(1).failNext = "NV"
		s.flush(func(p pending, k string) bool { return k == "VC" && p.to == 1 })
		for _, p := range votes { // the same votes once more
			s.pool = append(s.pool, p)
		}
		s.flush(func(p pending, k string) bool { return k == "VC" && p.to == 1 })
		s.flush(any)
	},
	// C05 (seeded change R01): nothing of view 0 arrives.  The Byzantine n3, leader of view 1003, sends every correct member a NEW_VIEW for
	// that far view, properly signed, with two genuine-looking votes of its own making only (no quorum): rejected - and it must leave no
	// trace: the elections of the views below it still have to take place (a member that remembered "view 1003 handled" would never
	// let an honest leader be elected again).  Then everybody times out; stabilisation finds them in view 1.
	"rejected_new_view_for_a_far_view_must_not_block_the_elections_below_it": func(s *sc) {
		s.startNodes()
		s.dropAll(any)
		x := s.adv.newBody(s.run, 1, false)
		votes := []*protocol.ViewChangeMessageContentBuilder{s.byzVote(1, 1003, 3)}
		d := nvD{inst: clusterInstance, h: 1, v: 1003, sender: s.cl.ids[3], votes: votes, pp: ref(protocol.LEAN_HELIX_PREPREPARE, 1, 1003, x), ppBy: s.cl.ids[3]}
		for _, i := range []int{0, 1, 2} {
			s.inject(i, s.adv.mkNV(d, x), "nv_too_few_votes")
		}
		for _, i := range []int{0, 1, 2} {
			s.timeout(i)
		}
		s.dropAll(any)
	},
	// C05 (seeded change Q06): nothing of view 0 arrives; the transport reports a FAILURE for n2's VIEW_CHANGE to the leader of view 1;
	// n0 and n1 time out as well (Byzantine n3 silent).  n2's vote is lost, but n2 itself must be in view 1 with its timer armed: the
	// two others cannot elect anybody without it, so a member that left the election without a timer stalls the height for ever.
	"view_change_send_fails_at_a_member_whose_vote_every_later_election_needs": func(s *sc) {
		s.startNodes()
		s.dropAll(any)
		s.node(2).failNext = "VC"
		s.timeout(2)
		s.timeout(0)
		s.timeout(1)
		s.flush(any)
	},
	// C07 / C04 (the block travels outside every signature): the honest n0 proposes A in view 0 and everybody accepts it; the PREPAREs are
	// lost; everybody times out.  The Byzantine n1 leads view 1: its NEW_VIEW carries the genuine lock-free votes and a PREPREPARE signed
	// for hash(A) again - but ANOTHER block X is attached.  A member that holds the proposal (0, A) must still have the attached block
	// validated by its consumer (which rejects a block that does not match the hash): no PREPARE for it.
	"new_view_resigns_the_hash_of_an_accepted_proposal_but_attaches_another_block": func(s *sc) {
		s.startNodes()
		s.flush(kinds("PP"))
		var a *vBlock
		for _, pp := range s.adv.ppSeen {
			if vb, ok := pp.Block().(*vBlock); ok {
				a = vb
			}
		}
		s.dropAll(any)
		for _, i := range []int{0, 2, 3} {
			s.timeout(i)
		}
		if a == nil {
			return
		}
		votes := append(s.genuineVotesFor(1, 1), s.byzVote(1, 1, 1))
		s.dropAll(any)
		x := s.adv.newBody(s.run, 1, false)
		d := nvD{inst: clusterInstance, h: 1, v: 1, sender: s.cl.ids[1], votes: votes, pp: ref(protocol.LEAN_HELIX_PREPREPARE, 1, 1, a), ppBy: s.cl.ids[1]}
		for _, i := range []int{0, 2, 3} {
			s.inject(i, s.adv.mkNV(d, x), "nv_block_mismatch")
		}
		s.flush(any)
	},
	// C03/C01: nobody is prepared in view 0 (the PREPAREs for B are lost; the adversary has seen them), but the next leader n1
	// holds the proposal B.  Everybody times out.  The Byzantine member n3 votes first, with a GENUINE prepared proof for B but
	// ANOTHER block X attached.  n1 must not count that vote (the block it would re-propose is not the certified one).  Then
	// the votes of n0 and n2 arrive; whatever NEW_VIEW n1 sends, n3 re-sends its signed content with block B attached instead.
	"vote_with_genuine_proof_and_another_block_to_a_leader_holding_the_proposal": func(s *sc) {
		s.startNodes()
		s.flush(kinds("PP"))
		var b *vBlock
		for _, pp := range s.adv.ppSeen {
			if vb, ok := pp.Block().(*vBlock); ok {
				b = vb
			}
		}
		s.dropAll(any)
		for _, i := range []int{0, 1, 2} {
			s.timeout(i)
		}
		if b == nil {
			return
		}
		x := s.adv.newBody(s.run, 1, false)
		pr := proofD{present: true, pp: ref(protocol.LEAN_HELIX_PREPREPARE, 1, 0, b), ppBy: s.cl.ids[0], p: ref(protocol.LEAN_HELIX_PREPARE, 1, 0, b),
			pBy: []primitives.MemberId{s.cl.ids[1], s.cl.ids[2]}, pModes: []string{"", ""}}
		s.inject(1, s.adv.mkVC(voteD{ht: protocol.LEAN_HELIX_VIEW_CHANGE, inst: clusterInstance, h: 1, v: 1, sender: s.cl.ids[3], proof: pr}, x), "vc_genuine_proof_other_block")
		s.flushOne(func(p pending, k string) bool { return k == "VC" && p.from == "n0" })
		s.flush(kinds("VC"))
		var nvs []pending
		for _, p := range s.pool {
			if kindOf(p.raw) == "NV" {
				nvs = append(nvs, p)
			}
		}
		s.flush(kinds("NV"))
		for _, p := range nvs { // the same signed NEW_VIEW content, relayed with the certified block attached
			s.inject(p.to, &interfaces.ConsensusRawMessage{Content: p.raw.Content, Block: b}, "nv_relayed_with_other_block")
		}
		s.flush(any)
	},
	// C10/C17: n3 lags at height 1.  Its future cache receives, for height 2 and in this order: the proposal A of the Byzantine
	// leader n0, the PREPAREs, a COMMIT quorum for A, and then a CONFLICTING proposal B of n0 for the same (height, view).  When n3
	// closes height 1 the drain decides height 2 in the middle; what is left in the cache is for a height that is over and must
	// reach no term (the term of height 3 would take B for a first proposal and sign a second PREPARE for (2, 0))
	"lagging_node_with_conflicting_proposal_behind_commit_quorum_in_its_cache": func(s *sc) {
		s.startNodes()
		n0 := s.cl.ids[0]
		a1 := s.adv.newBody(s.run, 1, false)
		for _, i := range []int{1, 2} {
			s.inject(i, s.adv.mkPP(ref(protocol.LEAN_HELIX_PREPREPARE, 1, 0, a1), n0, "", a1), "pp_leader")
		}
		s.flush(func(p pending, k string) bool { return k == "P" && p.to != 3 })
		for _, i := range []int{1, 2} {
			s.inject(i, s.adv.mkC(ref(protocol.LEAN_HELIX_COMMIT, 1, 0, a1), n0, "", ""), "c_byz_or_outsider")
		}
		s.flush(func(p pending, k string) bool { return k == "C" && p.to != 3 }) // n1 and n2 decide height 1
		a2, b2 := s.adv.newBody(s.run, 2, false), s.adv.newBody(s.run, 2, false)
		for _, i := range []int{1, 2, 3} {
			s.inject(i, s.adv.mkPP(ref(protocol.LEAN_HELIX_PREPREPARE, 2, 0, a2), n0, "", a2), "pp_leader")
		}
		s.flush(func(p pending, k string) bool { return k == "P" && msgHeight(p) == 2 })
		for _, i := range []int{3, 1, 2} {
			s.inject(i, s.adv.mkC(ref(protocol.LEAN_HELIX_COMMIT, 2, 0, a2), n0, "", ""), "c_byz_or_outsider")
		}
		s.flush(func(p pending, k string) bool { return k == "C" && msgHeight(p) == 2 })
		s.inject(3, s.adv.mkPP(ref(protocol.LEAN_HELIX_PREPREPARE, 2, 0, b2), n0, "", b2), "pp_leader_second_proposal")
		// now the traffic of height 1 reaches n3
		s.inject(3, s.adv.mkPP(ref(protocol.LEAN_HELIX_PREPREPARE, 1, 0, a1), n0, "", a1), "pp_leader")
		s.flush(func(p pending, k string) bool { return p.to == 3 && k == "P" && msgHeight(p) == 1 })
		s.inject(3, s.adv.mkC(ref(protocol.LEAN_HELIX_COMMIT, 1, 0, a1), n0, "", ""), "c_byz_or_outsider")
		s.flush(func(p pending, k string) bool { return p.to == 3 && k == "C" && msgHeight(p) == 1 })
		s.flush(any)
	},
	// C01: the same members (same keys) also run ANOTHER instance, which has decided block Z at height 2.  n3 lags at height 1 in
	// this instance while the others decide heights 1 and 2.  The Byzantine member n2 replays the other instance's complete round
	// of height 2 (PREPREPARE, PREPAREs, COMMIT quorum - all genuinely signed, for the other instance id) to n3, where it would
	// wait in the future cache; then n3 catches up.  It must decide this instance's block at height 2.
	"round_of_another_instance_replayed_to_a_lagging_member": func(s *sc) {
		s.startNodes()
		for guard := 0; guard < 400; guard++ { // n0, n1 (and the Byzantine n2, which follows) decide heights 1 and 2; n3 receives nothing
			if s.node(0).st.Height() >= 3 && s.node(1).st.Height() >= 3 {
				break
			}
			if s.flushOne(func(p pending, k string) bool { return p.to != 3 }) == 0 {
				for _, v := range []uint64{0} {
					s.byzFollows(2, v)
				}
				if s.flushOne(func(p pending, k string) bool { return p.to != 3 }) == 0 {
					break
				}
			}
		}
		z := s.adv.newBody(s.run, 2, false)
		other := clusterInstance + 1
		rf := func(ht protocol.MessageType) refD {
			r := ref(ht, 2, 0, z)
			r.inst = other
			return r
		}
		s.inject(3, s.adv.mkPP(rf(protocol.LEAN_HELIX_PREPREPARE), s.cl.ids[0], "otherinst", z), "pp_other_instance_genuine")
		for _, i := range []int{1, 2} {
			s.inject(3, s.adv.mkP(rf(protocol.LEAN_HELIX_PREPARE), s.cl.ids[i], "otherinst"), "p_other_instance_genuine")
		}
		for _, i := range []int{0, 1, 2} {
			s.inject(3, s.adv.mkC(rf(protocol.LEAN_HELIX_COMMIT), s.cl.ids[i], "otherinst", "otherinst"), "c_other_instance_genuine")
		}
		s.flushAll(func(p pending, k string) bool { return p.to == 3 && msgHeight(p) == 1 })
		s.flush(any)
	},
	// C09 (environment fault, nobody Byzantine acts): the transport fails exactly on the COMMIT broadcast n2 makes when it becomes
	// prepared; every other COMMIT is lost too; everybody times out.  n2 holds the certificate all the same: its vote carries it.
	"commit_broadcast_fails_when_becoming_prepared_then_timeout": func(s *sc) {
		s.startNodes()
		s.flush(kinds("PP"))
		s.node(2).failNext = "C"
		s.flush(kinds("P"))
		s.dropAll(kinds("C"))
		for _, i := range []int{0, 1, 2} {
			s.timeout(i)
		}
		s.flush(kinds("VC"))
		s.flush(any)
	},
	// C09 (boundary of "holding a prepared certificate"): weights 1,4,3,2 (Q = 7); view 0 is lost; the Byzantine n2 (weight 3 = f) sends
	// n1, the coming leader of view 1, a PREPARE for the block n1 is going to propose BEFORE n1 is elected.  After the election n1's log
	// holds its proposal and PREPAREs of quorum weight, but n1 never became prepared there (nothing re-evaluates the log after its own
	// proposal is stored) and signed no COMMIT; when it times out, its vote rightly carries no lock.
	"prepare_of_the_coming_view_reaches_the_next_leader_before_its_election": func(s *sc) {
		s.startNodes()
		s.dropAll(any)
		for _, i := range []int{0, 1, 3} {
			s.timeout(i)
		}
		early := &vBlock{height: 1, body: "b1.n1.1"} // the block n1's consumer hands out for its first proposal
		s.cl.addBody(early.body)
		s.inject(1, s.adv.mkP(ref(protocol.LEAN_HELIX_PREPARE, 1, 1, early), s.cl.ids[2], ""), "p_byz_or_outsider")
		s.flush(func(p pending, k string) bool { return k == "VC" && p.to == 1 }) // n1 is elected, proposes, holds proposal + quorum
		s.dropAll(any)
		s.timeout(1) // not prepared in view 1: the vote carries no lock
		s.timeout(0)
		s.timeout(3)
		s.flush(any)
	},
	// C18: weights 1,0,1,1,1 - n1 has no voting weight but it has its place in the committee's order: it leads view 1.  View 0 is
	// lost, everybody times out, n1 is elected and its proposal is committed (n4 is Byzantine and silent).
	"member_without_weight_leads_its_view": func(s *sc) {
		s.startNodes()
		s.dropAll(any)
		for _, i := range []int{0, 1, 2, 3} {
			s.timeout(i)
		}
		s.flush(any)
	},
	// lagging node (all honest): n3 receives the traffic of height 2 first (future cache), then height 1; the
	// commit of height 1 starts round 2, whose drain commits height 2 in the middle (H11 in situ)
	"lagging_node_drains_cached_height": func(s *sc) {
		s.startNodes()
		for guard := 0; guard < 3000; guard++ {
			if s.node(0).st.Height() >= 3 && s.node(1).st.Height() >= 3 && s.node(2).st.Height() >= 3 {
				break
			}
			if s.flushOne(func(p pending, k string) bool { return p.to != 3 }) == 0 {
				break
			}
		}
		heightOf := func(p pending) uint64 {
			m := interfaces.ToConsensusMessage(p.raw)
			if m == nil {
				return 0
			}
			return uint64(m.BlockHeight())
		}
		for _, kk := range []string{"PP", "C", "P"} { // cached order: proposal, commits, then the prepares
			kk := kk
			s.flushAll(func(p pending, k string) bool { return p.to == 3 && heightOf(p) == 2 && k == kk })
		}
		s.flushAll(func(p pending, k string) bool { return p.to == 3 && heightOf(p) == 1 })
	},
}

func msgHeight(p pending) uint64 {
	m := interfaces.ToConsensusMessage(p.raw)
	if m == nil {
		return 0
	}
	return uint64(m.BlockHeight())
}

func scenarioByz(name string) []int {
	switch name {
	case "vote_with_block_but_no_proof", "spliced_proof_for_rejected_block", "future_commit_signed_for_other_instance",
		"equivocating_first_leader_commit_quorum_for_the_other_block", "lagging_node_with_conflicting_proposal_behind_commit_quorum_in_its_cache",
		"late_commits_of_a_left_view_reach_a_member_that_prepared_the_next_view":
		return []int{0}
	case "lagging_node_drains_cached_height", "new_view_reaches_member_that_has_not_timed_out", "new_view_two_views_ahead_reaches_member_in_view_0",
		"elected_leader_holds_an_older_lock_than_one_of_its_voters":
		return nil
	case "lagging_member_with_foreign_instance_prepare_in_its_future_cache", "byzantine_commit_for_another_hash_before_two_genuine_commits",
		"byzantine_commit_with_share_copied_from_a_genuine_commit", "vote_with_genuine_proof_and_another_block_to_a_leader_holding_the_proposal",
		"commit_broadcast_fails_when_becoming_prepared_then_timeout", "new_view_broadcast_reports_a_failure_then_votes_of_that_view_arrive_again",
		"view_change_send_fails_at_a_member_whose_vote_every_later_election_needs", "rejected_new_view_for_a_far_view_must_not_block_the_elections_below_it":
		return []int{3}
	case "member_without_weight_leads_its_view":
		return []int{4}
	case "fork_via_proof_with_prepares_of_older_view", "heavy_pair_vote_with_unvalidated_block_but_no_proof", "round_of_another_instance_replayed_to_a_lagging_member",
		"prepare_of_the_coming_view_reaches_the_next_leader_before_its_election":
		return []int{2}
	}
	return []int{1}
}

func scenarioWeights(name string) []uint64 {
	if name == "heavy_pair_vote_with_unvalidated_block_but_no_proof" || name == "prepare_of_the_coming_view_reaches_the_next_leader_before_its_election" {
		return []uint64{1, 4, 3, 2}
	}
	if name == "member_without_weight_leads_its_view" {
		return []uint64{1, 0, 1, 1, 1}
	}
	return []uint64{1, 1, 1, 1}
}

// scenarioLength: number of steps (deliveries, timeouts) the schedule takes when it runs in full
func scenarioLength(name string) int {
	cl := newCluster(scenarioWeights(name), scenarioByz(name), 1, false)
	defer cl.close()
	null := newNdjson("/dev/null")
	defer null.close()
	r := &run{cl: cl, adv: newAdversary(cl), rnd: newRand(1), out: null, chain: map[uint64]commitRec{}, maxH: 2, stats: map[string]int{}, tmpl: map[string]int{}}
	s := &sc{run: r, name: name, budget: -1}
	scenarioTable[name](s)
	return s.spent
}

func scenarioNames() []string {
	names := []string{}
	for k := range scenarioTable {
		names = append(names, k)
	}
	sort.Strings(names)
	return names
}

func cmdScenarios(args []string) int {
	fs := flag.NewFlagSet("scenarios", flag.ExitOnError)
	outPath := fs.String("out", "scenarios.ndjson", "")
	only := fs.String("only", "", "run only this scenario")
	probe := fs.Int("probe", -1, "C11: see cluster -probe")
	fs.Parse(args)
	out := newNdjson(*outPath)
	defer out.close()
	stats := map[string]int{}
	tmpl := map[string]int{}
	names := []string{}
	for k := range scenarioTable {
		names = append(names, k)
	}
	sort.Strings(names)
	commits := 0
	for i, name := range names {
		if *only != "" && *only != name {
			continue
		}
		byz := scenarioByz(name)
		cl := newCluster(scenarioWeights(name), byz, 1, false)
		r := &run{cl: cl, adv: newAdversary(cl), rnd: newRand(int64(i)), out: out, chain: map[uint64]commitRec{}, maxH: 2, stats: stats, tmpl: tmpl, probeOn: *probe >= 0, probe: *probe}
		r.label = name
		r.emitInit(i)
		scenarioTable[name](&sc{run: r, name: name, budget: -1})
		for _, nd := range r.honest() {
			commits += len(nd.allCommits)
		}
		cl.close()
	}
	fmt.Printf("lines=%d scenarios=%d commits=%d\n", out.n, len(names), commits)
	return 0
}
