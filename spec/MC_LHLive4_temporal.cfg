CONSTANTS MaxView = 3 PreMaxView = 0 Canon = TRUE ByzBudget = 1 Blocks <- cBlocks Hdr <- cHdr Dev = {} Ablate = {}
SPECIFICATION LSpec
INVARIANTS NoStall Agreement
PROPERTIES Live
CHECK_DEADLOCK FALSE
