CONSTANTS MaxN = 4 MaxW = 5
INIT Init
NEXT Next
INVARIANT LawsHold
CHECK_DEADLOCK FALSE
