CONSTANTS Hmax = 4 MaxMsgs = 5 Fixed = TRUE
INIT Init
NEXT Next
INVARIANTS OwnHeightOnly Eligible AtMostOnce FifoPerHeight HandlerFollows
CHECK_DEADLOCK FALSE
