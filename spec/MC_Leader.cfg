CONSTANTS MaxN = 64 MaxStart = 130
INIT Init
NEXT Next
INVARIANT Law
CHECK_DEADLOCK FALSE
