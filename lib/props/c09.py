"""C09: see props/cluster.py (one recorded trace family, this property's own formulas in Trace_Cluster.tla)."""
from props import cluster

PID = "C09"


def run(tier, seed):
    return cluster.simple_check(PID, tier, seed)


def replay(path, seed):
    return cluster.simple_replay(PID, path, seed)
