------------------------------ MODULE MC_Filter ------------------------------
(* Exhaustive exploration of Filter.tla with history variables; the properties of C17.     *)
EXTENDS Filter
CONSTANTS MaxMsgs
VARIABLES s, log, delivered
vars == <<s, log, delivered>>
Patterns == {"none", "first", "all"}
Init == s = InitS /\ log = <<>> /\ delivered = <<>>
Recv == /\ Len(log) < MaxMsgs
        /\ \E h \in 0..Hmax, inst \in {"me", "other"}, self \in BOOLEAN, pat \in Patterns :
             LET m == [id |-> Len(log) + 1, h |-> h, inst |-> inst, self |-> self,
                       guar |-> inst = "me" /\ ~self /\ h > s.cur]
                 r == RecvR(s, m, pat)
             IN /\ log' = Append(log, m) /\ s' = r.st /\ delivered' = delivered \o r.out
Start == \E H \in Heights, pat \in Patterns :
           /\ H > s.cur
           /\ LET r == StartR(s, H, pat) IN s' = r.st /\ delivered' = delivered \o r.out /\ UNCHANGED log
Next == Recv \/ Start

\* delivered[i] = <<id, handlerHeight>>
OwnHeightOnly == \A i \in DOMAIN delivered : log[delivered[i][1]].h = delivered[i][2]
Eligible      == \A i \in DOMAIN delivered : log[delivered[i][1]].inst = "me" /\ ~log[delivered[i][1]].self
AtMostOnce    == \A i, j \in DOMAIN delivered : delivered[i][1] = delivered[j][1] => i = j
FifoPerHeight == \A i, j \in DOMAIN delivered :
                   (i < j /\ log[delivered[i][1]].h = log[delivered[j][1]].h) => delivered[i][1] < delivered[j][1]
HandlerFollows == s.handler = s.cur
=============================================================================
