------------------------------ MODULE MC_Quorum ------------------------------
(* Design-level check of C06: every weight vector of 1..MaxN members with weights      *)
(* 0..MaxW is one state; the laws quantify over all subsets / subset pairs.            *)
EXTENDS Quorum, TLC
CONSTANTS MaxN, MaxW
VARIABLE w
Init == \E n \in 1..MaxN : w = [i \in 1..n |-> 0]
Next == \E i \in DOMAIN w : w[i] < MaxW /\ w' = [w EXCEPT ![i] = @ + 1]
Spec == Init /\ [][Next]_w
LawsHold == Laws(w)
\* vacuity guards: some vector must have a quorum that is not everybody, and a zero weight
=============================================================================
