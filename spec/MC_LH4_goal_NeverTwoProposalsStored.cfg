CONSTANTS MaxView = 2 ByzBudget = 3 Blocks <- cBlocks Hdr <- cHdr Dev = {} Ablate = {}
INIT Init
NEXT Next
VIEW View
INVARIANT NeverTwoProposalsStored
CHECK_DEADLOCK FALSE
