"""C12 no bytes crash, wedge or disable a node.  Cluster part: garbage / truncated / bit-flipped content and
structurally valid messages with extreme field values are injected at every point of random adversarial runs
of real nodes; TLC checks (Trace_Cluster) that no step panics and that unparseable bytes change nothing, and the
rest of the run keeps conforming and committing.  Runtime part (main loop wedge, API entry points) is in
props/runtime.py."""
from props import cluster

PID = "C12"


def _extra(rep, tier, seed):
    try:
        from props import runtime
    except ImportError:
        return
    if hasattr(runtime, "c12"):
        runtime.c12(rep, tier, seed)


def run(tier, seed):
    return cluster.simple_check(PID, tier, seed, extra=_extra)


def replay(path, seed):
    import json
    payload = json.load(open(path))
    if payload.get("kind") == "cluster-run":
        return cluster.simple_replay(PID, path, seed)
    from props import runtime
    return runtime.simple_replay(PID, path, seed)
