---------------------------- MODULE Trace_Quorum ----------------------------
(* P4 for C06: every line is one call of the real quorum functions with its inputs and  *)
(* outputs (64-bit values as BigNat limbs); TLC recomputes f, Q and the subset weight   *)
(* from Quorum.tla's definitions (transcribed to BigNat) and compares.                  *)
EXTENDS BigNat, TLC, Json, IOUtils, FiniteSets
Trace == TLCEval(ndJsonDeserialize(IOEnv.VERIF_TRACE))
VARIABLE l
Init == l = 1
Next == l < Len(Trace) /\ l' = l + 1

TotalB(w) == Sum(w)
FB(W) == IF W = Zero THEN Zero ELSE DivSmall(Sub(W, One), 3)
QB(W) == IF W = Zero THEN One ELSE Sub(W, FB(W))
SetWeightB(S, w) == FoldLeft(LAMBDA acc, i : IF i \in S THEN Add(acc, w[i]) ELSE acc, Zero, UpTo(Len(w)))

Chk(cond, tag) == cond \/ PrintT(<<"VERIF_BAD", tag, l>>)

CallOK(e) ==
  LET W  == TotalB(e.w)
      sw == SetWeightB(Range(e.ids), e.w)
  IN /\ Chk(e.q = QB(W), "q")
     /\ Chk(e.f = FB(W), "f")
     /\ Chk(e.isq = Le(QB(W), sw) /\ e.isq_w = sw /\ e.isq_q = QB(W), "isquorum")
     /\ Chk(e.hh  = Lt(FB(W), sw) /\ e.hh_w  = sw /\ e.hh_b  = FB(W), "hashonest")

\* the laws, stated on what the real tests answered for two id lists A and B
PairOK(e) ==
  LET W  == TotalB(e.w)
      M  == 1..Len(e.w)
      A  == Range(e.a) \cap M
      B  == Range(e.b) \cap M
  IN /\ Chk((e.isq_a /\ e.isq_b) => Lt(FB(W), SetWeightB(A \cap B, e.w)), "intersect")
     /\ Chk(e.isq_a => e.hh_a, "quorum_has_honest")
     /\ Chk((A \subseteq B /\ e.isq_a) => e.isq_b, "monotone_q")
     /\ Chk((A \subseteq B /\ e.hh_a) => e.hh_b, "monotone_h")
     /\ Chk((W # Zero /\ Le(SetWeightB(A, e.w), FB(W))) => e.isq_comp_a, "attainable")

LineOK == LET e == Trace[l] IN
          CASE e.op = "call" -> CallOK(e)
            [] e.op = "pair" -> PairOK(e)
            [] e.op = "panic" -> Chk(FALSE, "quorum_function_panicked")   \* the functions are total on every committee and id list
            [] OTHER -> Chk(FALSE, "unknown_op")
=============================================================================
