"""Protocol family (C01, C03, C04, C07-C12 cluster part, C17 in situ): executions of N real nodes under
the random adversarial scheduler (and directed scenarios) are recorded by the harness and validated by
TLC against Trace_Cluster.tla, which evaluates each property's own requirement at every step and the
conformance of the step with LHNode.tla.  One trace serves the whole family; each property's check
reports only its own tags, so a violation is attributed to the property whose formula failed."""
import json, os, shutil, collections
import vlib
from props import tables

TAG_PROP = {"c01": "C01", "c03": "C03", "c04": "C04", "c07": "C07", "c08": "C08", "c09": "C09", "c10": "C10", "c11": "C11",
            "c12": "C12", "c13": "C13", "c17": "C17", "c18": "C18", "c20": "C20"}


def gen_args(tier, seed):
    if tier == "quick":
        return {"seed": seed, "runs": 120, "steps": 400, "heights": 2, "nmin": 4, "nmax": 5}
    return {"seed": seed, "runs": 1500, "steps": 600, "heights": 3, "nmin": 4, "nmax": 7}


def _harness_args(a, trace, only=None):
    if a.get("scenarios"):
        return ["scenarios", "-out", trace] + (["-only", only] if only else []) + (["-probe", a["probe"]] if a.get("probe") is not None else [])
    if a.get("specreplay"):
        return ["specreplay", "-in", a["behs"], "-out", trace]
    if a.get("guards"):
        return ["guards", "-out", trace, "-seed", a["seed"], "-rand", a["rand"]] + (["-only", only] if only is not None else [])
    if a.get("liveness"):
        return ["liveness", "-out", trace, "-seed", a["seed"], "-runs", a["runs"], "-prefix", a["prefix"], "-nmax", a["nmax"], "-cuts", a.get("cuts", 0)] + (["-allcuts"] if a.get("allcuts") else []) + (
            ["-only", only] if only is not None else [])
    out = ["cluster", "-out", trace, "-seed", a["seed"], "-runs", a["runs"], "-steps", a["steps"], "-heights", a["heights"],
           "-nmin", a["nmin"], "-nmax", a["nmax"]]
    if only is not None:
        out += ["-only", only]
    if a.get("lone"):
        out += ["-lone"]
    if a.get("probe") is not None:
        out += ["-probe", a["probe"]]
    return out


def _runs_index(lines):
    """line number (1-based) -> (run index, line within the run)"""
    idx = {}
    run, start = -1, 0
    for i, e in enumerate(lines, 1):
        if e.get("ev") == "init":
            run, start = e["run"], i
        idx[i] = (run, i - start + 1)
    return idx


def describe(e):
    if e.get("ev") in ("stable", "liveness_verdict"):
        return json.dumps(e)
    if e.get("ev") == "wedged":
        return "node %s never came back from a %s (%s): wedged" % (e.get("n"), e.get("on"), json.dumps(e.get("msg"))[:300])
    m = e.get("msg", {})
    s = "%s at %s" % (e.get("ev"), e.get("n"))
    if e.get("ev") == "deliver":
        s += " of %s(h=%s,v=%s,sender=%s,sig=%s) from=%s template=%s" % (
            m.get("k"), m.get("h"), m.get("v"), m.get("s"), m.get("sig"), e.get("from"), e.get("tmpl") or "genuine")
    s += " -> view %s, prepared %s, committed %s, sent %s" % (
        e["post"]["view"], e["post"]["prepared"], e["post"]["committed"], [x["msg"]["k"] for x in e.get("sent", [])])
    if e.get("commits"):
        s += ", commit callback %s" % [(c["h"], c["blk"], "strict-valid" if c["strict"] else "REJECTED by peers") for c in e["commits"]]
    return s


def classify(tag, e, lines=None, l=None, bad=None):
    """signature of a failing step: what a known finding is matched against"""
    m = e.get("msg", {}) if isinstance(e.get("msg"), dict) else {}
    sig = {"tag": tag, "ev": e.get("ev"), "msg_kind": m.get("k"), "genuine": e.get("tmpl") in ("", "dup", None) and e.get("from") != "byz"}
    if tag == "c01_fork" and lines is not None:
        # was the conflicting block adopted by this node through a standalone PREPREPARE in a view above 0 ?
        blks = {c["blk"] for c in e.get("commits", [])}
        via = False
        for j in range(l - 1, 0, -1):
            x = lines[j - 1]
            if x.get("ev") == "init":
                break
            if x.get("n") == e.get("n") and "c07_standalone_preprepare_in_view_above_0" in (bad.get(j) or []) \
                    and x["msg"].get("blk") in blks:
                via = True
                break
        sig["via_standalone_preprepare"] = via
    return sig


_cache = {}


def run_traces(tier, seed, only=None, args=None):
    """Generate + validate once per process; returns (lines, bad {line: [tags]}, tlc result, harness stdout)."""
    key = (tier, seed, only, json.dumps(args, sort_keys=True) if args else None)
    if key in _cache:
        return _cache[key]
    a = args or gen_args(tier, seed)
    wd = vlib.scratch_dir("cluster")
    try:
        trace = os.path.join(wd, "cluster.ndjson")
        out = vlib.run_harness(_harness_args(a, trace, only), cwd=wd, timeout=3000)
        lines = vlib.read_ndjson(trace)
        r = vlib.tlc("Trace_Cluster", "Trace_Cluster.cfg", workdir=wd, workers=1, timeout=3000, env_extra={"VERIF_TRACE": trace})
        if r.error:
            raise vlib.Inconclusive("Trace_Cluster: %s" % r.error)
        if r.violated:
            raise vlib.Inconclusive("Trace_Cluster: TLC stopped on %s" % r.violated)
        if r.distinct < len(lines):
            raise vlib.Inconclusive("Trace_Cluster consumed %d of %d lines" % (r.distinct, len(lines)))
        bad = {}
        for t in r.bad:
            bad.setdefault(t[1], []).append(t[0])
        _cache[key] = (lines, bad, r, out, a)
        return _cache[key]
    finally:
        shutil.rmtree(wd, ignore_errors=True)


def judge(rep, pid, tier, seed, only=None, args=None, what="random adversarial schedules", behs=None):
    lines, bad, r, out, a = run_traces(tier, seed, only, args)
    idx = _runs_index(lines)
    rep.add_tlc(r, "Trace_Cluster over %d events of real nodes (%s)" % (len(lines), what))
    nruns = sum(1 for e in lines if e.get("ev") == "init")
    rep.traces += nruns
    rep.evaluations += len(lines)
    prefix = pid.lower() + "_"
    kinds = collections.Counter()
    for e in lines:
        if e.get("ev") not in ("init", "stable", "liveness_verdict", "specreplay_abort", "wedged"):
            kinds[(e["ev"], e.get("msg", {}).get("k"), e.get("tmpl", ""))] += 1
            rep.distinct.add((e["ev"], e.get("msg", {}).get("k"), e.get("tmpl", ""), e["post"]["view"], e["post"]["prepared"], len(e.get("sent", []))))
    rep.extra["event_classes"] = len(kinds)
    if any(e.get("ev") == "probe" for e in lines):
        rep.extra["probes_on_replayed_copies"] = rep.extra.get("probes_on_replayed_copies", 0) + sum(1 for e in lines if e.get("ev") == "probe")
    rep.extra["commit_callbacks"] = sum(len(e.get("commits", [])) for e in lines if e.get("ev") != "init")
    verdicts = [e for e in lines if e.get("ev") == "liveness_verdict"]
    if verdicts:
        rep.extra["stabilised_runs"] = len(verdicts)
        rep.extra["commits_of_post_stabilisation_proposals"] = sum(1 for e in verdicts if e["committed"] and not e["pre_gst_proposal"])
        rep.extra["worst_timeouts_over_bound"] = max([e["timeouts"] / e["bound"] for e in verdicts if e["bound"]] or [0])
    rep.extra["harness"] = out.strip()[:600]
    for e in lines:
        if e.get("ev") == "deliver" and e.get("sent"):
            rep.sample({"event": describe(e)})
            if len(rep.samples) >= 4:
                break
    seen = set()
    ndrift = 0
    for l in sorted(bad):
        e = lines[l - 1]
        for tag in sorted(set(bad[l])):
            if tag.startswith("drift_"):
                ndrift += 1
                if len(rep.drift) < 10 and pid in ("C01", "C08"):
                    rep.drift.append("%s: %s" % (tag, describe(e)))
                continue
            if not tag.startswith(prefix):
                continue
            if a.get("only_tags") and not any(tag.startswith(t) for t in a["only_tags"]):
                continue
            sig = classify(tag, e, lines, l, bad)
            k = vlib.known_match(pid, sig)
            if k:
                if k["id"] not in seen:
                    seen.add(k["id"])
                    rep.known.append("%s: %s" % (k["id"], k["what"]))
                continue
            key = json.dumps(sig, sort_keys=True)
            if key in seen:
                continue
            seen.add(key)
            run, lin = idx[l]
            label = [x for x in lines[:l] if x.get("ev") == "init"][-1].get("label", "")
            if a.get("specreplay"):
                path = rep.replay_of or vlib.save_replay(pid, "specreplay_seed%d_behaviour%d_line%d" % (a["seed"], run, lin),
                                                         {"property": pid, "kind": "spec-replay", "behaviour": behs[run] if behs else None, "line_in_run": lin,
                                                          "failed": sig, "event": describe(e)})
            elif a.get("guards"):
                path = rep.replay_of or vlib.save_replay(pid, "guards_seed%d_case%d" % (a["seed"], run),
                                                         {"property": pid, "kind": "cluster-run", "args": a, "run": run, "line_in_run": lin,
                                                          "failed": sig, "event": describe(e)})
            elif a.get("scenarios"):
                path = rep.replay_of or vlib.save_replay(pid, "scenario_%s_line%d" % (label, lin),
                                                         {"property": pid, "kind": "cluster-run", "args": a, "run": label, "line_in_run": lin,
                                                          "failed": sig, "event": describe(e)})
            else:
                path = rep.replay_of or vlib.save_replay(pid, "cluster_seed%d_run%d_line%d" % (a["seed"], run, lin),
                                                         {"property": pid, "kind": "cluster-run", "args": a, "run": run, "line_in_run": lin,
                                                          "failed": sig, "event": describe(e)})
            rep.violation(path, "%s: %s" % (tag, describe(e)))
    rep.extra["drift_lines"] = ndrift
    return lines, bad


def proof_table(rep, pid, tier, seed, replay_in=None):
    """P4 table of the real prepared-proof validator (every key in hand: a valid proof for every subset of PREPARE
    senders, and the fully signed proof changed in exactly one respect), judged by Trace_Proof.tla with ValidProofBody."""
    from props import tables
    prefix = pid.lower() + "_"

    def classify(line, tags):
        return ({"tag": tags[0], "dev": line.get("dev")}, "%s: ValidatePreparedProof %s the proof built as '%s' for target view %s (harness parse: %s)" % (
            tags[0], "accepted" if line["accepted"] else "rejected", line.get("dev"), line.get("tv"), json.dumps(line["proof"])[:300]))
    tables.run_table(rep, pid, "proofs", ["-seed", seed, "-rand", 400 if tier == "quick" else 20000], "Trace_Proof", "Trace_Proof.cfg", classify,
                     replay_in=replay_in, sample_keys=["dev", "accepted", "tv"], distinct_key=lambda e: [e["dev"], e["accepted"], e["w"], e["tv"]],
                     tag_filter=lambda t: t.startswith(prefix))


def storage_trees(rep, pid, tier, seed, replay_in=None):
    """Storage.tla bound to the real InMemoryStorage: every call sequence up to depth 2 over 2 heights x 2 views x 2 hashes x
    2 senders plus long random sequences; after every call the whole log is read back through every getter (Trace_Storage)."""
    from props import trees

    def describe(path):
        return " ".join("%s(%s h=%s v=%s %s by %s)->%s" % (e["op"], e.get("k"), e["h"], e["v"], e["x"], e["s"], e["res"]) for e in path[-8:])
    r = vlib.tlc_must_pass("MC_Storage", "MC_Storage.cfg", timeout=900)
    if r.violated:
        raise vlib.Inconclusive("Storage.tla violates its own laws (%s): spec bug" % r.violated)
    rep.add_tlc(r, "Storage.tla complete state graph (2 heights x 2 views x 2 hashes x 2 senders, at most 3 entries): one proposal per view, stores only add, clear is exact")
    # unbounded (Apalache): OneProposalPerView is an inductive invariant of the log for ALL heights, views, hashes, senders and
    # any number of entries, and no step replaces the first proposal of a view (StorageInd.tla, same step functions with Int ids)
    for init, inv, n in (("Init", "IndInv", 0), ("IndInit", "IndInv", 1), ("IndInit", "FirstProposalWins", 1)):
        ok, out, secs = vlib.apalache("StorageInd", init, inv, n)
        if not ok:
            raise vlib.Inconclusive("Apalache: StorageInd %s => %s fails (specification matter):\n%s" % (init, inv, out))
        rep.parts.append({"what": "Apalache StorageInd.tla: --init=%s --inv=%s --length=%d, no error (unbounded integers)" % (init, inv, n), "wall_s": round(secs, 1)})
    args = ["-seed", seed, "-depth", 2, "-rand", 300 if tier == "quick" else 6000, "-randlen", 40 if tier == "quick" else 80]
    trees.run_tree(rep, pid, "storage", args, "Trace_Storage", "Trace_Storage.cfg", describe, replay_in=replay_in, timeout=3000, only_prefix=pid.lower() + "_")


def replay(rep, payload, seed):
    pid = payload["property"]
    if payload.get("kind") == "storage-path":
        from props import trees
        wd = vlib.scratch_dir("storager")
        try:
            storage_trees(rep, pid, "quick", seed, replay_in=trees.replay_path(payload, wd))
        finally:
            shutil.rmtree(wd, ignore_errors=True)
        return
    if payload.get("kind") == "proofs-line":
        from props import tables
        wd = vlib.scratch_dir("proofr")
        try:
            proof_table(rep, pid, "quick", seed, replay_in=tables.replay_line(payload, wd))
        finally:
            shutil.rmtree(wd, ignore_errors=True)
        return
    if payload.get("kind") == "spec-replay":
        from props import specreplay
        specreplay.judge(rep, pid, "quick", seed, inline=[payload["behaviour"]])
        return
    judge(rep, pid, "quick", payload["args"]["seed"], only=payload["run"], args=payload["args"], what="replay of run %s" % payload["run"])


ASSUME = ["signatures are judged by the harness's HMAC keyring (ground truth), never by the code under test",
          "the projection of node state reads the real storage through its SPI plus the verif accessor for prepared/committed/lastNV flags",
          "Byzantine weight <= f in every generated committee; adversary limited to Byzantine/outsider keys + replay of captured signed parts",
          "round changes: effects of draining the future cache are judged against the cache the reference filter would hold"]


PER_NODE = ("C07", "C08", "C09", "C10", "C12", "C17")   # properties about what ONE correct node does, whatever the others are


def simple_check(pid, tier, seed, extra=None):
    rep = vlib.Report(pid, tier, seed)
    rep.assumptions = list(ASSUME)
    if pid == "C11":
        # every NEW_VIEW / VIEW_CHANGE and a share of the PREPAREs / COMMITs a correct node sends are also delivered at once to
        # copies-by-replay of their correct recipients ("probe" lines)
        rep.assumptions.append("a copy of a peer is a fresh real node given every input the peer has had (the harness fakes are deterministic); a copy that does not end in the peer's state is not used (counted)")
        judge(rep, pid, tier, 0, args={"scenarios": True, "seed": 0, "probe": 100}, what="directed schedules (attack library), every send probed on replayed copies of its recipients")
        judge(rep, pid, tier, seed, args=dict(gen_args(tier, seed), probe=15 if tier == "quick" else 30), what="random adversarial schedules, sends probed on replayed copies of their recipients")
    else:
        judge(rep, pid, tier, 0, args={"scenarios": True, "seed": 0}, what="directed schedules (attack library)")
        judge(rep, pid, tier, seed)
    if pid in PER_NODE:
        # ONE correct node, every other key held by the adversary: per-node properties only (more than f Byzantine weight)
        only_tags = [p.lower() + "_" for p in PER_NODE]
        judge(rep, pid, tier, seed, args={"guards": True, "seed": seed, "rand": 150 if tier == "quick" else 3000, "only_tags": only_tags},
              what="guard tables: a valid VIEW_CHANGE / NEW_VIEW changed in exactly one respect, delivered to a lone real node")
        la = dict(gen_args(tier, seed), lone=True, only_tags=only_tags)
        la["runs"] = la["runs"] // 3
        judge(rep, pid, tier, seed, args=la, what="random adversarial schedules against a lone real node (all other keys held by the adversary)")
    if pid in ("C07", "C08", "C09", "C11", "C12"):
        proof_table(rep, pid, tier, seed)
    if pid in ("C08", "C10", "C12"):   # (C12: a call of the message log that panics or does not return)
        storage_trees(rep, pid, tier, seed)
    if pid in ("C01", "C04", "C07", "C08", "C10"):
        from props import specreplay
        specreplay.judge(rep, pid, tier, seed)
    if extra:
        extra(rep, tier, seed)
    return rep.finish()


def simple_replay(pid, path, seed):
    rep = vlib.Report(pid, "quick", seed)
    rep.replay_of = path
    replay(rep, json.load(open(path)), seed)
    return rep.finish()
