"""C17 height filter and future cache.  Filter.tla (filter + the worker's re-entrant drain) model-checked
exhaustively with history variables; the real RawMessageFilter + state.State driven through every
operation sequence up to a depth and through random sequences, with a recording handler that starts
the next round from inside a delivery when told to; every operation judged by TLC (Trace_Filter).
The in-situ part (real WorkerLoop, real terms, multi-height cluster runs) is in props/cluster.py."""
import json, os, shutil
import vlib
from props import trees

PID = "C17"


def _describe(path):
    def one(e):
        if e["op"] == "recv":
            return "recv(h=%d,%s%s,commit=%s)->%s" % (e["h"], e["inst"], ",own" if e["self"] else "", e["pat"], e["out"])
        return "start(h=%d,commit=%s)->%s" % (e["h"], e["pat"], e["out"])
    return " ".join(one(e) for e in path[-8:])


def unit(rep, tier, seed, replay_in=None):
    if tier == "quick":
        args = ["-seed", seed, "-depth", 3, "-hmax", 3, "-rand", 4000, "-randlen", 10]
    else:
        args = ["-seed", seed, "-depth", 4, "-hmax", 3, "-rand", 40000, "-randlen", 14]
    trees.run_tree(rep, PID, "filter", args, "Trace_Filter", "Trace_Filter.cfg", _describe, replay_in=replay_in,
                   timeout=3000)


def run(tier, seed):
    rep = vlib.Report(PID, tier, seed)
    rep.assumptions = [
        "guaranteed delivery is read as: no accepted-for-caching message above H was received before the node starts H "
        "(the cache keeps only the newest future height), and only up to the first delivery that commits H",
        "the harness glue (commit = SetHeightAndResetView + ConsumeCacheMessages from inside the handler) mirrors WorkerLoop.onNewConsensusRound"]
    cfg = "MC_Filter_quick.cfg" if tier == "quick" else "MC_Filter_thorough.cfg"
    r = vlib.tlc_must_pass("MC_Filter", cfg, timeout=3000)
    if r.violated:
        raise vlib.Inconclusive("C17 invariants fail in Filter.tla itself (%s): spec bug" % r.violated)
    rep.add_tlc(r, "Filter.tla complete state graph with delivery history (%s)" % cfg)
    rep.exhaustive = True
    unit(rep, tier, seed)
    try:
        from props import cluster
    except ImportError:
        cluster = None
    if cluster:
        cluster.judge(rep, PID, tier, 0, args={"scenarios": True, "seed": 0}, what="directed schedules, in situ")
        cluster.judge(rep, PID, tier, seed, what="random adversarial schedules, in situ")
        from props import specreplay
        specreplay.judge_two_heights(rep, PID, tier, seed)
    # the real two-goroutine runtime: the height the filter classifies by is the height of the installed term
    from props import runtime
    rep.assumptions += runtime.ASSUME
    runtime.judge(rep, PID, tier, seed)
    return rep.finish()


def replay(path, seed):
    rep = vlib.Report(PID, "quick", seed)
    rep.replay_of = path
    payload = json.load(open(path))
    wd = vlib.scratch_dir("c17r")
    try:
        if payload.get("kind") == "runtime-run":
            from props import runtime
            runtime.replay(rep, payload, seed)
        elif payload.get("kind") == "filter-path":
            unit(rep, "quick", seed, replay_in=trees.replay_path(payload, wd))
        else:
            from props import cluster
            cluster.replay(rep, payload, seed)
    finally:
        shutil.rmtree(wd, ignore_errors=True)
    return rep.finish()
