"""C06 quorum arithmetic: Quorum.tla laws model-checked over all small weight vectors; the real
quorum functions tabulated on small, boundary (2^53, 2^63, 2^64-1, 3m+-1) and random 64-bit totals and
every recorded (input, output) line checked by TLC against the BigNat transcription of the spec."""
import json, os, shutil
import vlib
from props import tables

PID = "C06"


def _classify(line, tags):
    total = sum(tables.big(x) for x in line["w"])
    sig = {"op": line["op"], "tags": tags, "total_above_2p53": total > 2 ** 53}
    return sig, "real quorum functions disagree with Quorum.tla on a %s line (total weight %d): %s" % (
        line["op"], total, ",".join(tags))


def _table(rep, tier, seed, replay_in=None):
    n = 1500 if tier == "quick" else 12000
    tables.run_table(rep, PID, "quorum", ["-seed", seed, "-small", n, "-big", n], "Trace_Quorum", "Trace_Quorum.cfg",
                     _classify, replay_in=replay_in, sample_keys=["op", "ids", "a", "b", "isq", "hh", "q", "f"],
                     distinct_key=lambda e: [e["w"], e.get("ids"), e.get("a"), e.get("b")])


def _proof(rep):
    """Unbounded totals: the arithmetic core (intersection > f, quorum has honest, attainable) for ALL natural W by TLAPS."""
    import re, subprocess
    wd = vlib.scratch_dir("c06p")
    try:
        shutil.copyfile(os.path.join(vlib.SPEC, "QuorumLemma.tla"), os.path.join(wd, "QuorumLemma.tla"))
        try:
            p = subprocess.run(["tlapm", "--threads", "8", "QuorumLemma.tla"], cwd=wd, stdout=subprocess.PIPE, stderr=subprocess.STDOUT, text=True, timeout=300)
        except (OSError, subprocess.TimeoutExpired) as e:
            raise vlib.Inconclusive("tlapm did not run: %s" % e)
        m = re.search(r"All (\d+) obligations? proved", p.stdout)
        if not m:
            raise vlib.Inconclusive("tlapm did not prove QuorumLemma.tla:\n" + p.stdout[-1500:])
        rep.extra["tlaps_obligations_proved"] = int(m.group(1))
        rep.parts.append({"what": "QuorumLemma.tla (TLAPS, SMT): Intersect, QuorumHasHonest, Attainable for all natural totals", "obligations": int(m.group(1))})
    finally:
        shutil.rmtree(wd, ignore_errors=True)


def run(tier, seed):
    rep = vlib.Report(PID, tier, seed)
    rep.assumptions = ["weight totals fit in 64 bits (as the property states)",
                       "BigNat.tla limb arithmetic is the transcription of Quorum.tla's integer definitions",
                       "laws over unbounded totals rest on f and Q being recomputed exactly by TLC for every recorded call"]
    cfg = "MC_Quorum_quick.cfg" if tier == "quick" else "MC_Quorum_thorough.cfg"
    r = vlib.tlc_must_pass("MC_Quorum", cfg, timeout=1800)
    if r.violated:
        raise vlib.Inconclusive("design-level laws fail in Quorum.tla itself (%s): spec bug" % r.violated)
    rep.add_tlc(r, "Quorum.tla laws on every weight vector (%s)" % cfg)
    _proof(rep)
    _table(rep, tier, seed)
    return rep.finish()


def replay(path, seed):
    rep = vlib.Report(PID, "quick", seed)
    rep.replay_of = path
    wd = vlib.scratch_dir("c06r")
    try:
        _table(rep, "quick", seed, replay_in=tables.replay_line(json.load(open(path)), wd))
    finally:
        shutil.rmtree(wd, ignore_errors=True)
    return rep.finish()
