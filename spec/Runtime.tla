------------------------------ MODULE Runtime ------------------------------
(* The two-goroutine runtime of lean-helix-go (mainloop.go, workerloop.go, state/*.go) with the  *)
(* consensus protocol abstracted to "a term may commit".  Processes: API callers (UpdateState),   *)
(* the main loop (select: sync / election trigger / shutdown, GC of old contexts on every          *)
(* iteration), the worker loop (select: sync slot / election slot / consensus traffic / shutdown), *)
(* the election timer, and the blocking SPI calls of the worker (each one is two steps, Enter and  *)
(* Leave, so that cancellation while the worker is inside an SPI call is explored).                *)
(*                                                                                                 *)
(* Contexts are the registry of ViewContexts.tla, used through its step functions.                 *)
EXTENDS Integers, Sequences, FiniteSets, TLC
CONSTANTS MaxH,        \* heights 1..MaxH
          MaxV,        \* views 0..MaxV; view 9 is the term-level umbrella (MaxUint64)
          MaxSyncs     \* number of UpdateState calls the environment makes

Heights == 1..(MaxH + 1)
Views   == (0..MaxV) \cup {9}
VC == INSTANCE ViewContexts
RL == INSTANCE RuntimeLogic     \* the loops' decisions as pure functions, shared with Trace_RuntimeConf.tla
P == VC!P
NoHV == <<0, 0>>

VARIABLES reg,        \* context registry (ViewContexts state record)
          hv,         \* shared State: <<height, view>>
          cancelled,  \* the context given to Run has been cancelled
          mainAlive, workerAlive,
          maxSync,    \* main loop: highest block height accepted by sync (-1 = none)
          syncSlot,   \* worker's update-state channel (capacity 1, overwritten): -1 or block height
          elecSlot,   \* worker's election channel (capacity 1, overwritten): NoHV or <<h, v>>
          timer,      \* armed election timer: NoHV or <<h, v>>
          wpc,        \* worker: "idle" | "spi"
          wspi,       \* the SPI call in progress: [kind, ctx (position), h, first]
          member,     \* the current term participates (committee received)
          commits, rounds,   \* callback histories (heights)
          proposals,  \* set of <<h, v>> for which a proposal was broadcast
          nsync       \* UpdateState calls made so far
vars == <<reg, hv, cancelled, mainAlive, workerAlive, maxSync, syncSlot, elecSlot, timer, wpc, wspi, member, commits, rounds, proposals, nsync>>

NoSpi == [kind |-> "-", ctx |-> NoHV, h |-> 0, first |-> FALSE, round |-> 0]   \* round: new-round callback still to be made when the call returns
Older(a, b) == VC!Older(a, b)
Live(p) == p \in P /\ reg.status[p] = "live"
Done(p) == p \notin P \/ reg.status[p] # "live"          \* a context that is not live is done (cancelled)

Init == /\ reg = VC!InitS /\ hv = <<0, 0>> /\ cancelled = FALSE /\ mainAlive = TRUE /\ workerAlive = TRUE
        /\ maxSync = -1 /\ syncSlot = -1 /\ elecSlot = NoHV /\ timer = NoHV /\ wpc = "idle" /\ wspi = NoSpi
        /\ member = FALSE /\ commits = <<>> /\ rounds = <<>> /\ proposals = {} /\ nsync = 0

-----------------------------------------------------------------------------
\* ---- environment
\* UpdateState(block of height b): rendezvous with the main loop (it must be alive and at its select)
ApiUpdateState(b) ==
  /\ mainAlive /\ ~cancelled /\ nsync < MaxSyncs /\ nsync' = nsync + 1
  /\ LET d == RL!SyncDecision(maxSync, reg, b) IN
     /\ reg' = d.reg
     /\ IF d.res = "done" THEN syncSlot' = b /\ maxSync' = b ELSE UNCHANGED <<syncSlot, maxSync>>
  /\ UNCHANGED <<hv, cancelled, mainAlive, workerAlive, elecSlot, timer, wpc, wspi, member, commits, rounds, proposals>>

Cancel == /\ ~cancelled /\ cancelled' = TRUE
          /\ UNCHANGED <<reg, hv, mainAlive, workerAlive, maxSync, syncSlot, elecSlot, timer, wpc, wspi, member, commits, rounds, proposals, nsync>>

\* ---- main loop
\* every iteration starts with GcOldContexts: CancelOlderThan(State.Height(), 0)
MainGC == /\ mainAlive /\ hv[1] >= 1
          /\ reg' = VC!CancelR(reg, RL!GcTarget(hv)).st
          /\ UNCHANGED <<hv, cancelled, mainAlive, workerAlive, maxSync, syncSlot, elecSlot, timer, wpc, wspi, member, commits, rounds, proposals, nsync>>

\* the armed timer fires and the main loop takes the trigger
MainElection ==
  /\ mainAlive /\ timer # NoHV
  /\ LET d == RL!ElectionDecision(reg, timer) IN
     /\ reg' = d.reg
     /\ IF d.res = "done" THEN elecSlot' = timer ELSE UNCHANGED elecSlot
  /\ timer' = NoHV
  /\ UNCHANGED <<hv, cancelled, mainAlive, workerAlive, maxSync, syncSlot, wpc, wspi, member, commits, rounds, proposals, nsync>>

\* ctx.Done: the loop ends and the deferred interrupt() shuts every context down
MainShutdown ==
  /\ mainAlive /\ cancelled
  /\ mainAlive' = FALSE /\ reg' = VC!ShutdownR(reg).st
  /\ UNCHANGED <<hv, cancelled, workerAlive, maxSync, syncSlot, elecSlot, timer, wpc, wspi, member, commits, rounds, proposals, nsync>>

\* ---- worker loop
Idle == workerAlive /\ wpc = "idle"

\* enter a blocking SPI call with the context of position p (if the registry hands it out)
EnterSpi(kind, p, h, first, regNow) ==
  LET f == VC!ForR(regNow, p) IN
  IF f.res # "ok" THEN [ok |-> FALSE, reg |-> regNow, spi |-> NoSpi]
  ELSE [ok |-> TRUE, reg |-> f.st, spi |-> [kind |-> kind, ctx |-> p, h |-> h, first |-> first, round |-> 0]]

\* onNewConsensusRound(H, first): context of (H,0), height forward only, new term asks for the committee
NewRound(H, first) ==
  LET f0 == VC!ForR(reg, <<H, 0>>) IN
  IF f0.res # "ok" \/ H <= hv[1] \/ H > MaxH + 1
  THEN wpc' = "idle" /\ wspi' = NoSpi /\ UNCHANGED <<reg, hv, timer, member, rounds>>
  ELSE LET e == EnterSpi("committee", <<H, 9>>, H, first, f0.st) IN
       /\ hv' = <<H, 0>> /\ timer' = NoHV /\ member' = FALSE
       /\ reg' = e.reg
       /\ IF e.ok THEN wpc' = "spi" /\ wspi' = e.spi /\ UNCHANGED rounds
          ELSE wpc' = "idle" /\ wspi' = NoSpi /\ rounds' = Append(rounds, H)      \* no committee: out of the term

WorkerSync ==
  /\ Idle /\ syncSlot # -1
  /\ syncSlot' = -1
  /\ IF RL!WorkerSyncAccepts(syncSlot, hv) THEN NewRound(syncSlot + 1, FALSE)
     ELSE UNCHANGED <<reg, hv, timer, wpc, wspi, member, rounds>>
  /\ UNCHANGED <<cancelled, mainAlive, workerAlive, maxSync, elecSlot, commits, proposals, nsync>>

\* election trigger for the current (height, view): next view, re-arm, the new leader asks for a block
WorkerElection ==
  /\ Idle /\ elecSlot # NoHV
  /\ elecSlot' = NoHV
  /\ IF ~RL!WorkerElectionCurrent(elecSlot, hv) \/ ~member \/ hv[2] >= MaxV THEN UNCHANGED <<reg, hv, timer, wpc, wspi>>
     ELSE /\ hv' = <<hv[1], hv[2] + 1>> /\ timer' = <<hv[1], hv[2] + 1>>
          /\ \/ UNCHANGED <<reg, wpc, wspi>>                                        \* not the leader: sends its vote
             \/ LET e == EnterSpi("propose", <<hv[1], hv[2] + 1>>, hv[1], FALSE, reg) IN   \* elected leader
                reg' = e.reg /\ (IF e.ok THEN wpc' = "spi" /\ wspi' = e.spi ELSE UNCHANGED <<wpc, wspi>>)
  /\ UNCHANGED <<cancelled, mainAlive, workerAlive, maxSync, syncSlot, member, commits, rounds, proposals, nsync>>

\* consensus traffic: a proposal to validate, or a quorum of commits
WorkerValidate ==
  /\ Idle /\ member /\ hv[1] >= 1
  /\ LET e == EnterSpi("validate", hv, hv[1], FALSE, reg) IN
     reg' = e.reg /\ (IF e.ok THEN wpc' = "spi" /\ wspi' = e.spi ELSE UNCHANGED <<wpc, wspi>>)
  /\ UNCHANGED <<hv, cancelled, mainAlive, workerAlive, maxSync, syncSlot, elecSlot, timer, member, commits, rounds, proposals, nsync>>

WorkerCommit ==
  /\ Idle /\ member /\ hv[1] >= 1 /\ hv[1] <= MaxH
  /\ (IF commits = <<>> THEN TRUE ELSE commits[Len(commits)] < hv[1])   \* the term commits at most once (committedBlock)
  /\ LET e == EnterSpi("commit", <<hv[1], 9>>, hv[1], FALSE, reg) IN
     reg' = e.reg /\ (IF e.ok THEN wpc' = "spi" /\ wspi' = e.spi ELSE UNCHANGED <<wpc, wspi>>)
  /\ UNCHANGED <<hv, cancelled, mainAlive, workerAlive, maxSync, syncSlot, elecSlot, timer, member, commits, rounds, proposals, nsync>>

\* an SPI call returns: because the consumer answered, or because its context was cancelled
LeaveSpi ==
  /\ workerAlive /\ wpc = "spi"
  /\ LET s == wspi  dead == Done(s.ctx) IN
     CASE s.kind = "committee" ->
            IF dead THEN /\ wpc' = "idle" /\ wspi' = NoSpi /\ rounds' = Append(rounds, s.h)
                         /\ UNCHANGED <<reg, hv, timer, member, commits, proposals>>
            ELSE /\ member' = TRUE /\ timer' = <<s.h, 0>>
                 /\ UNCHANGED <<hv, commits, proposals>>
                 \* the term is constructed (and, for a first leader, asks for its block and proposes) BEFORE the
                 \* new-round callback is made: workerloop.go onNewConsensusRound -> NewLeanHelixTerm -> startTerm
                 /\ \/ (wpc' = "idle" /\ wspi' = NoSpi /\ rounds' = Append(rounds, s.h) /\ UNCHANGED reg)     \* not the first leader
                    \/ ((s.h = 1 \/ s.first) /\
                        LET e == EnterSpi("propose", <<s.h, 0>>, s.h, FALSE, reg) IN
                        reg' = e.reg /\ (IF e.ok THEN wpc' = "spi" /\ wspi' = [e.spi EXCEPT !.round = s.h] /\ UNCHANGED rounds
                                                  ELSE wpc' = "idle" /\ wspi' = NoSpi /\ rounds' = Append(rounds, s.h)))
       [] s.kind = "propose" ->
            /\ wpc' = "idle" /\ wspi' = NoSpi
            /\ proposals' = IF dead THEN proposals ELSE proposals \cup {s.ctx}      \* ctx.Err() != nil: nothing is sent
            /\ rounds' = IF s.round # 0 THEN Append(rounds, s.round) ELSE rounds
            /\ UNCHANGED <<reg, hv, timer, member, commits>>
       [] s.kind = "validate" ->
            /\ wpc' = "idle" /\ wspi' = NoSpi
            /\ UNCHANGED <<reg, hv, timer, member, commits, rounds, proposals>>
       [] s.kind = "commit" ->
            /\ commits' = Append(commits, s.h) /\ UNCHANGED proposals
            /\ \/ (wpc' = "idle" /\ wspi' = NoSpi /\ UNCHANGED <<reg, hv, timer, member, rounds>>)   \* callback failed
               \/ NewRound(s.h + 1, TRUE)                                                            \* callback ok
  /\ UNCHANGED <<cancelled, mainAlive, workerAlive, maxSync, syncSlot, elecSlot, nsync>>

WorkerShutdown ==
  /\ Idle /\ cancelled
  /\ workerAlive' = FALSE /\ timer' = NoHV
  /\ UNCHANGED <<reg, hv, cancelled, mainAlive, maxSync, syncSlot, elecSlot, wpc, wspi, member, commits, rounds, proposals, nsync>>

Next == \/ \E b \in 0..MaxH : ApiUpdateState(b)
        \/ Cancel \/ MainGC \/ MainElection \/ MainShutdown
        \/ WorkerSync \/ WorkerElection \/ WorkerValidate \/ WorkerCommit \/ LeaveSpi \/ WorkerShutdown

Fairness == /\ WF_vars(MainShutdown) /\ WF_vars(WorkerShutdown) /\ WF_vars(LeaveSpi) /\ WF_vars(WorkerSync) /\ WF_vars(WorkerElection)
Spec == Init /\ [][Next]_vars /\ Fairness

-----------------------------------------------------------------------------
(* C13 *)
Increasing(s) == \A i, j \in DOMAIN s : i < j => s[i] < s[j]
CommitOnce == Increasing(commits)
RoundsForward == Increasing(rounds)
HVForward == [][ \/ hv' = hv
                 \/ (hv'[1] = hv[1] /\ hv'[2] > hv[2])
                 \/ (hv'[1] > hv[1] /\ hv'[2] = 0) ]_vars
RoundsAfterCommit == [][ \A i \in DOMAIN rounds' : (i > Len(rounds) /\ commits # <<>>) => rounds'[i] > commits[Len(commits)] ]_vars
(* C14 *)
SyncTakesEffect == \A b \in 0..MaxH : (syncSlot = b /\ b >= hv[1]) ~> (hv[1] > b \/ cancelled \/ ~workerAlive)
(* C15 *)
\* the worker is never inside an SPI call with a live context of a superseded position once the main loop
\* has been told to leave it; and whoever waits on a context is released: Done or the call is allowed to finish
NoStaleLive == \A q \in P : reg.status[q] = "live" => ~reg.shut /\ (reg.wm = NoHV \/ ~Older(q, reg.wm))
SpiReleased == (wpc = "spi" /\ reg.wm # NoHV /\ Older(wspi.ctx, reg.wm)) => Done(wspi.ctx)
NoProposalUnderCancelledCtx == [][ \A p \in proposals' \ proposals : Live(p) ]_vars
(* C16 *)
ShutdownCompletes == cancelled ~> (~mainAlive /\ ~workerAlive)
NothingAfterShutdown == [][ (~mainAlive /\ ~workerAlive) => (commits' = commits /\ rounds' = rounds /\ proposals' = proposals /\ timer' = NoHV) ]_vars
TimerStopped == (~workerAlive) => timer = NoHV
=============================================================================
