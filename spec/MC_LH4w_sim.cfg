CONSTANTS MaxView = 2 ByzBudget = 6 Blocks <- cBlocks Hdr <- cHdr Dev = {} Ablate = {}
INIT Init
NEXT Next
INVARIANTS Agreement LockedNodeLevel ExternalValidity NoRejectedCommitted NoEquivocation HigherViewOnlyByCertificate
CHECK_DEADLOCK FALSE
