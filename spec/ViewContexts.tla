---------------------------- MODULE ViewContexts ----------------------------
(* The context registry of state/view_contexts.go: one cancellable context per (height,    *)
(* view) position, a watermark below which nothing is issued any more, and a shutdown flag. *)
(* Written as step FUNCTIONS over a state record so that the same definitions serve the      *)
(* model-checking instance (MC_ViewContexts) and the trace specification (Trace_ViewContexts)*)
EXTENDS Integers, FiniteSets
CONSTANTS Heights, Views          \* small sets of naturals; the largest view stands for MaxUint64
P == Heights \X Views
Older(a, b) == a[1] < b[1] \/ (a[1] = b[1] /\ a[2] < b[2])
NoneHV == <<0, 0>>                \* "no watermark yet"; heights start at 1 so it is older than all of P

InitS == [status |-> [p \in P |-> "none"], wm |-> NoneHV, shut |-> FALSE]

\* For(hv): error when shut down or hv is older than the watermark; else the (one) context of hv
ForR(s, p) ==
  IF s.shut THEN [res |-> "shutdown", st |-> s]
  ELSE IF s.wm # NoneHV /\ Older(p, s.wm) THEN [res |-> "stale", st |-> s]
  ELSE [res |-> "ok", st |-> [s EXCEPT !.status[p] = IF @ = "none" THEN "live" ELSE @]]

\* CancelOlderThan(hv): cancel and forget every context older than hv, raise the watermark
CancelR(s, p) ==
  [res |-> "ok",
   st  |-> [s EXCEPT !.status = [q \in P |-> IF Older(q, p) /\ s.status[q] = "live" THEN "cancelled" ELSE s.status[q]],
                     !.wm = IF s.wm = NoneHV \/ Older(s.wm, p) THEN p ELSE s.wm]]

ShutdownR(s) ==
  [res |-> "ok",
   st  |-> [s EXCEPT !.status = [q \in P |-> IF s.status[q] = "live" THEN "cancelled" ELSE s.status[q]],
                     !.shut = TRUE]]

-----------------------------------------------------------------------------
(* The registry part of C15 as state / step predicates over (s, op, s')                     *)
\* a live context is never for a superseded position and never survives shutdown
LiveOK(s) == \A q \in P : s.status[q] = "live" => ~s.shut /\ (s.wm = NoneHV \/ ~Older(q, s.wm))
\* a context is never handed out for a position that has already been superseded
NeverStaleIssue(s, t) == \A p \in P : s.status[p] = "none" /\ t.status[p] = "live"
                                        => ~s.shut /\ (s.wm = NoneHV \/ ~Older(p, s.wm))
\* contexts of the current or future positions are not cancelled by events about older ones
OnlyOlderCancelled(s, t) == \A q \in P : s.status[q] = "live" /\ t.status[q] = "cancelled"
                                           => t.shut \/ Older(q, t.wm)
\* a cancelled context never comes back
NoResurrection(s, t) == \A q \in P : s.status[q] = "cancelled" => t.status[q] = "cancelled"
=============================================================================
