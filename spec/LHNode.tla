------------------------------- MODULE LHNode -------------------------------
(* One Lean Helix node as the code implements it (services/termincommittee, leanhelixterm,   *)
(* rawmessagesfilter, workerloop), written as STEP FUNCTIONS over a node record so that the   *)
(* same definitions drive model checking (MC modules) and judge recorded executions (Trace_Cluster). *)
(* One function per handler, with the same cascades the code has:                              *)
(*   processPreprepare -> checkPreparedLocally -> onPreparedLocally -> checkCommitted          *)
(*   HandleViewChange / timeout -> checkElected -> onElectedByViewChange                       *)
(*   commit -> onNewConsensusRound -> startTerm -> drain of the future cache                   *)
(*                                                                                             *)
(* Node record ns: h, view, prepared (-1 = none), committed, lastnv, member,                   *)
(*   pp : set of [v, x, s, blk]        the stored proposal per view (first one wins)           *)
(*   ps, cs : sets of [v, x, s]        stored PREPARE / COMMIT senders                         *)
(*   vs : set of [v, s, pv, px, blk]   stored VIEW_CHANGE votes (proof view / hash, block)     *)
(* Full node: [ns, cache |-> [h, msgs]]  (future cache: newest future height only).            *)
(* Dev: named deviations of the code from the reference design that are known findings.        *)
EXTENDS LHMessages
CONSTANTS Dev,      \* named deviations of the code from the reference design (known findings)
          Ablate    \* guards switched off: TLC then synthesises the attack that guard exists for (MC_LeanHelix)
On(g) == g \notin Ablate

SafeHead(q) == IF q = <<>> THEN "?" ELSE Head(q)
SafeTail(q) == IF q = <<>> THEN <<>> ELSE Tail(q)
NoDigest == [k |-> "-", h |-> 0, to |-> {}, v |-> 0, x |-> "-", blk |-> "-", pv |-> -1, px |-> "-", ps |-> {}, votes |-> {}]
Others(h, n) == Members(h) \ {n}

FreshNS(h) == [h |-> h, view |-> 0, prepared |-> -1, committed |-> FALSE, lastnv |-> 0, member |-> TRUE,
               pp |-> {}, ps |-> {}, cs |-> {}, vs |-> {}]
InitFull == [ns |-> [FreshNS(0) EXCEPT !.member = FALSE], cache |-> [h |-> 0, msgs |-> <<>>]]

\* R: running result of one step
NewR(ns, proposed) == [ns |-> ns, out |-> <<>>, commit |-> "-", vals |-> <<>>, proposed |-> proposed]
Send(R, d) == [R EXCEPT !.out = Append(@, [d EXCEPT !.h = R.ns.h])]     \* a node sends for the height of the term that is sending

HasPP(ns, v)  == \E p \in ns.pp : p.v = v
ThePP(ns, v)  == CHOOSE p \in ns.pp : p.v = v
IsPreprepared(ns, v, x) == HasPP(ns, v) /\ ThePP(ns, v).blk # "-" /\ ThePP(ns, v).x = x
PrepSenders(ns, v, x) == {p.s : p \in {q \in ns.ps : q.v = v /\ q.x = x}}
ComSenders(ns, v, x)  == {p.s : p \in {q \in ns.cs : q.v = v /\ q.x = x}}
VotesAt(ns, v) == {t \in ns.vs : t.v = v}

\* ---------------------------------------------------------------- commit / prepared cascades
CheckCommitted(R, n, v, x) ==
  LET ns == R.ns IN
  IF ns.committed \/ ~IsPreprepared(ns, v, x)
     \/ ~(IF On("commit_quorum") THEN IsQuorum(ns.h, ComSenders(ns, v, x)) ELSE HasHonest(ns.h, ComSenders(ns, v, x))) THEN R
  ELSE LET R1 == IF n \in ComSenders(ns, v, x) THEN R
                 ELSE Send(R, [NoDigest EXCEPT !.k = "C", !.to = Others(ns.h, n), !.v = v, !.x = x])
       IN [R1 EXCEPT !.ns.committed = TRUE, !.commit = ThePP(ns, v).blk]

CheckPrepared(R, n, v, x) ==
  LET ns == R.ns IN
  IF ns.prepared = v \/ ~IsPreprepared(ns, v, x)
     \/ ~(IF On("prepare_quorum") THEN IsQuorum(ns.h, PrepSenders(ns, v, x) \cup {ThePP(ns, v).s})
           ELSE HasHonest(ns.h, PrepSenders(ns, v, x) \cup {ThePP(ns, v).s})) THEN R
  ELSE LET R1 == [R EXCEPT !.ns.prepared = v, !.ns.cs = @ \cup {[v |-> v, x |-> x, s |-> n]}]
           R2 == Send(R1, [NoDigest EXCEPT !.k = "C", !.to = Others(ns.h, n), !.v = v, !.x = x])
       IN CheckCommitted(R2, n, v, x)

\* processPreprepare: only in the node's current view; store proposal + own PREPARE, broadcast PREPARE
ProcessPP(R, n, v, x, s, blk) ==
  IF R.ns.view # v THEN R
  ELSE LET R1 == [R EXCEPT !.ns.pp = IF HasPP(R.ns, v) THEN (IF On("pp_first_wins") THEN @ ELSE {p \in @ : p.v # v} \cup {[v |-> v, x |-> x, s |-> s, blk |-> blk]})
                                       ELSE @ \cup {[v |-> v, x |-> x, s |-> s, blk |-> blk]},
                           !.ns.ps = @ \cup {[v |-> v, x |-> x, s |-> n]}]
           R2 == Send(R1, [NoDigest EXCEPT !.k = "P", !.to = Others(R.ns.h, n), !.v = v, !.x = x])
       IN CheckPrepared(R2, n, v, x)

\* ---------------------------------------------------------------- handlers
HandlePP(R, n, m) ==
  LET ns == R.ns IN
  IF (On("pp_first_wins") /\ HasPP(ns, m.v)) \/ (On("pp_sig") /\ ~m.sig) \/ (On("pp_leader") /\ m.s # LeaderM(ns.h, m.vm)) \/ m.ht # "PP" \/ ~m.canon
     \/ (m.v > 0 /\ "StandalonePP" \notin Dev) THEN R
  ELSE LET ok == n \in SeqToSet(m.okfor)
           R1 == [R EXCEPT !.vals = Append(@, [blk |-> m.blk, ok |-> ok, by |-> LeaderM(ns.h, m.vm)])]   \* by: the proposer named to the consumer
       IN IF ~ok THEN R1 ELSE ProcessPP(R1, n, m.v, m.x, m.s, m.blk)

HandleP(R, n, m) ==
  LET ns == R.ns IN
  IF (On("p_sig") /\ ~m.sig) \/ m.ht # "P" \/ ~m.canon \/ m.s \notin Members(ns.h) \/ (On("p_view") /\ m.v < ns.view) \/ m.s = LeaderM(ns.h, m.vm) THEN R
  ELSE CheckPrepared([R EXCEPT !.ns.ps = @ \cup {[v |-> m.v, x |-> m.x, s |-> m.s]}], n, m.v, m.x)

HandleC(R, n, m) ==
  LET ns == R.ns IN
  IF ~m.share \/ (On("c_sig") /\ ~m.sig) \/ m.ht # "C" \/ ~m.canon \/ m.s \notin Members(ns.h) THEN R
  ELSE CheckCommitted([R EXCEPT !.ns.cs = @ \cup {[v |-> m.v, x |-> m.x, s |-> m.s]}], n, m.v, m.x)

\* onElectedByViewChange: the NEW_VIEW embeds exactly the stored votes; block of the highest proof
\* among votes that carry a block, a fresh proposal only if none does
CheckElected(R, n, v) ==
  LET ns == R.ns  votes == VotesAt(ns, v) IN
  IF (On("elect_once") /\ ns.lastnv >= v) \/ ~IsQuorum(ns.h, {t.s : t \in votes}) THEN R
  ELSE IF ns.view > v THEN [R EXCEPT !.ns.lastnv = v]
  ELSE LET withBlk == {t \in votes : t.blk # "-"}
           fresh   == withBlk = {}
           best    == IF fresh THEN [blk |-> "-", px |-> "-"]
                      ELSE CHOOSE t \in withBlk : \A u \in withBlk : u.pv <= t.pv
           blk     == IF fresh THEN SafeHead(R.proposed) ELSE best.blk
           x       == IF fresh THEN SafeHead(R.proposed) ELSE best.px
           R1      == [R EXCEPT !.ns.lastnv = v, !.ns.view = v,
                                !.proposed = IF fresh THEN SafeTail(@) ELSE @,
                                !.ns.pp = IF HasPP(ns, v) THEN @ ELSE @ \cup {[v |-> v, x |-> x, s |-> n, blk |-> blk]}]
       IN Send(R1, [NoDigest EXCEPT !.k = "NV", !.to = Others(ns.h, n), !.v = v, !.x = x, !.blk = blk,
                                    !.votes = {[s |-> t.s, pv |-> t.pv, px |-> t.px] : t \in votes}])

\* what the code's ValidatePreparedProof accepts (no proof is fine)
ProofOKCode(p, h, tv) == ~p.has \/ ValidProof(p, h, tv)

HandleVC(R, n, m) ==
  LET ns == R.ns IN
  IF LeaderM(ns.h, m.vm) # n \/ ns.view > m.v \/ ~m.sig \/ m.ht # "VC" \/ ~m.canon \/ m.s \notin Members(ns.h)
     \/ (On("vc_proof") /\ ~ProofOKCode(m.proof, ns.h, m.v))
     \/ (m.proof.has /\ (m.blk = "-" \/ ~m.bok)) \/ (~m.proof.has /\ m.blk # "-") THEN R
  ELSE LET vote == [v |-> m.v, s |-> m.s, pv |-> IF m.proof.has THEN m.proof.ppv ELSE -1,
                    px |-> IF m.proof.has THEN m.proof.ppx ELSE "-", blk |-> m.blk]
           R1 == [R EXCEPT !.ns.vs = IF \E t \in @ : t.v = m.v /\ t.s = m.s THEN @ ELSE @ \cup {vote}]
       IN CheckElected(R1, n, m.v)

\* validateViewChangeVotes
VotesOKCode(m, h) ==
  /\ IsQuorum(h, {m.votes[i].s : i \in DOMAIN m.votes})
  /\ \A i \in DOMAIN m.votes : m.votes[i].h = m.h /\ (On("nv_vote_view") => m.votes[i].v = m.v) /\ (On("nv_vote_sig") => m.votes[i].sig) /\ m.votes[i].ht = "VC"
                               /\ m.votes[i].inst = m.inst        \* (H17) votes signed for another instance are not votes of this NEW_VIEW
  /\ Distinct([i \in DOMAIN m.votes |-> m.votes[i].s])

HandleNV(R, n, m) ==
  LET ns == R.ns IN
  IF ns.view > m.v \/ (On("nv_sig") /\ ~m.sig) \/ m.ht # "NV" \/ (On("nv_leader") /\ m.s # LeaderM(ns.h, m.vm)) \/ ~VotesOKCode(m, ns.h)
     \/ m.pp.v # m.v \/ m.pp.h # m.h \/ m.pp.inst # m.inst THEN R
  ELSE LET withP == {i \in DOMAIN m.votes : m.votes[i].proof.has}
           noP   == withP = {}
           li    == IF noP THEN 0 ELSE CHOOSE i \in withP : \A j \in withP : m.votes[j].proof.ppv <= m.votes[i].proof.ppv
           proofOK == noP \/ ( /\ (On("nv_proof") => ValidProof(m.votes[li].proof, ns.h, m.votes[li].v))
                               /\ m.votes[li].canon /\ m.votes[li].s \in Members(ns.h)
                               /\ (On("nv_lock") => (m.blk # "-" /\ m.bok /\ m.blk = m.votes[li].proof.ppx /\ m.pp.x = m.votes[li].proof.ppx)) )   \* (bok: the consumer's ValidateBlockCommitment for THIS height)
       IN IF ~proofOK THEN R
          ELSE LET valok == n \in SeqToSet(m.okfor)
                   R1 == IF noP THEN [R EXCEPT !.vals = Append(@, [blk |-> m.blk, ok |-> valok, by |-> LeaderM(ns.h, m.vm)])] ELSE R
               IN IF noP /\ ~valok THEN R1
                  ELSE IF HasPP(ns, m.pp.v) \/ ~m.pp.sig \/ m.pp.s # LeaderM(ns.h, m.vm) \/ m.pp.ht # "PP" \/ ~m.pp.canon THEN R1
                  ELSE ProcessPP([R1 EXCEPT !.ns.lastnv = m.v, !.ns.view = m.v], n, m.v, m.pp.x, m.pp.s, m.blk)

TermHandle(R, n, m) ==
  CASE m.k = "PP" -> HandlePP(R, n, m)
    [] m.k = "P"  -> HandleP(R, n, m)
    [] m.k = "C"  -> HandleC(R, n, m)
    [] m.k = "VC" -> HandleVC(R, n, m)
    [] m.k = "NV" -> HandleNV(R, n, m)
    [] OTHER -> R

\* election timeout of the current view: move to view+1, vote with the lock (proof + block)
Timeout(R, n) ==
  LET ns == R.ns
      v1 == ns.view + 1
      pv == ns.prepared
      hasLock == pv >= 0 /\ HasPP(ns, pv)
                 /\ IsQuorum(ns.h, PrepSenders(ns, pv, ThePP(ns, pv).x) \cup {ThePP(ns, pv).s})
      ppv == IF hasLock THEN ThePP(ns, pv) ELSE [x |-> "-", blk |-> "-"]
      vote == [v |-> v1, s |-> n, pv |-> IF hasLock THEN pv ELSE -1, px |-> ppv.x, blk |-> ppv.blk]
      ldr == LeaderM(ns.h, v1)
      R1 == [R EXCEPT !.ns.view = v1]
  IN IF ldr = n
     THEN CheckElected([R1 EXCEPT !.ns.vs = IF \E t \in @ : t.v = v1 /\ t.s = n THEN @ ELSE @ \cup {vote}], n, v1)
     ELSE Send(R1, [NoDigest EXCEPT !.k = "VC", !.to = {ldr}, !.v = v1, !.pv = vote.pv, !.px = vote.px, !.blk = vote.blk,
                                    !.ps = IF hasLock THEN PrepSenders(ns, pv, ppv.x) ELSE {}])

\* startTerm
\* startTerm.  A node that is not in the committee of h gets a term that takes no part (no proposal, no timer, nothing handled)
StartTerm(R, n, h, canFirst) ==
  LET ns0 == [FreshNS(h) EXCEPT !.member = n \in Members(h)]
      R0 == [R EXCEPT !.ns = ns0, !.commit = "-"] IN
  IF ~ns0.member \/ (h > 1 /\ ~canFirst) \/ LeaderM(h, 0) # n THEN R0
  ELSE LET b == SafeHead(R.proposed)
           R1 == [R0 EXCEPT !.proposed = SafeTail(@), !.ns.pp = {[v |-> 0, x |-> b, s |-> n, blk |-> b]}]
       IN Send(R1, [NoDigest EXCEPT !.k = "PP", !.to = Others(h, n), !.v = 0, !.x = b, !.blk = b])

-----------------------------------------------------------------------------
\* The whole node: height filter, future cache, commit -> next round -> drain.
\* FR: [ns, cache, out, commits (Seq of block names), vals, proposed]
FR0(full, proposed) == [ns |-> full.ns, cache |-> full.cache, out |-> <<>>, commits |-> <<>>, vals |-> <<>>, proposed |-> proposed]
ToR(fr) == [ns |-> fr.ns, out |-> fr.out, commit |-> "-", vals |-> fr.vals, proposed |-> fr.proposed]
FromR(fr, R) == [fr EXCEPT !.ns = R.ns, !.out = R.out, !.vals = R.vals, !.proposed = R.proposed,
                           !.commits = IF R.commit = "-" THEN @ ELSE Append(@, R.commit)]

\* a round started from inside the drain of another round: its own cache is necessarily empty
\* (the cache holds one height only), so it is just startTerm
Round2(fr, n, h) == FromR(fr, StartTerm(ToR(fr), n, h, TRUE))

\* start round h: new term, then drain the cached messages of h one at a time; a delivery that
\* commits starts round h+1 in the middle of the drain, after which the rest is skipped (the
\* cached messages are no longer for the current height)
Round1(fr, n, h, canFirst) ==
  LET started == FromR(fr, StartTerm(ToR(fr), n, h, canFirst))
      msgs    == IF fr.cache.h = h THEN fr.cache.msgs ELSE <<>>
      cleared == [started EXCEPT !.cache = [h |-> fr.cache.h, msgs |-> IF fr.cache.h <= h THEN <<>> ELSE fr.cache.msgs]]
  IN FoldLeft(LAMBDA acc, m :
                IF (On("drain_height_guard") /\ acc.ns.h # h) \/ ~acc.ns.member THEN acc
                ELSE LET R == TermHandle(ToR(acc), n, m)
                         a1 == FromR(acc, R)
                     IN IF R.commit = "-" THEN a1 ELSE Round2(a1, n, h + 1),
              cleared, msgs)

AfterTerm(fr, n, R) ==
  LET a1 == FromR(fr, R) IN
  IF R.commit = "-" THEN a1 ELSE Round1(a1, n, fr.ns.h + 1, TRUE)

Deliver(full, n, m, proposed) ==
  LET fr == FR0(full, proposed) IN
  IF m.k = "BAD" \/ m.s = n \/ m.h < fr.ns.h \/ m.inst # 0 THEN fr
  ELSE IF m.h > fr.ns.h THEN
       IF m.h < fr.cache.h THEN fr
       ELSE [fr EXCEPT !.cache = [h |-> m.h, msgs |-> IF m.h > fr.cache.h THEN <<m>> ELSE Append(fr.cache.msgs, m)]]
  ELSE IF ~fr.ns.member THEN fr
  ELSE AfterTerm(fr, n, TermHandle(ToR(fr), n, m))

DoTimeout(full, n, proposed) ==
  LET fr == FR0(full, proposed) IN AfterTerm(fr, n, Timeout(ToR(fr), n))

\* node sync / first start: UpdateState with a block of height bh
DoSync(full, n, bh, proposed) ==
  LET fr == FR0(full, proposed) IN
  IF bh < fr.ns.h THEN fr ELSE Round1(fr, n, bh + 1, FALSE)
=============================================================================
