------------------------- MODULE Trace_ViewContexts -------------------------
(* Tree traces recorded from the real state.ViewContexts.  The harness walks the tree of all  *)
(* call sequences up to a depth (and long random sequences); a line is one call with its      *)
(* result and the status (live / cancelled) of every context handed out so far on this path,  *)
(* or "pop" (back to the parent node) or "reset" (fresh registry).  The stack holds, per tree *)
(* level, the specification state reached by the same calls and the observed statuses.        *)
EXTENDS ViewContexts, Sequences, TLC, Json, IOUtils
Trace == ndJsonDeserialize(IOEnv.VERIF_TRACE)
VARIABLES l, stack
vars == <<l, stack>>
Chk(cond, tag) == cond \/ PrintT(<<"VERIF_BAD", tag, l>>)
Top == stack[Len(stack)]

\* observed status map of a line: positions never handed out are "none"
Obs(e) == [p \in P |-> IF \E i \in DOMAIN e.obs : e.obs[i][1] = p[1] /\ e.obs[i][2] = p[2]
                       THEN (CHOOSE i \in DOMAIN e.obs : e.obs[i][1] = p[1] /\ e.obs[i][2] = p[2] /\ TRUE) \* index
                       ELSE 0]
ObsStatus(e) == LET ix == Obs(e) IN [p \in P |-> IF ix[p] = 0 THEN "none" ELSE e.obs[ix[p]][3]]

\* observed facts packaged like a spec state: watermark and shutdown flag are functions of the
\* calls made (history), the statuses are what the real contexts say
Observed(specSt, e) == [status |-> ObsStatus(e), wm |-> specSt.wm, shut |-> specSt.shut]

StepR(s, e) == CASE e.op = "for" -> ForR(s, <<e.h, e.v>>)
                 [] e.op = "cancel" -> CancelR(s, <<e.h, e.v>>)
                 [] e.op = "shutdown" -> ShutdownR(s)

Init == l = 1 /\ stack = <<[spec |-> InitS, obs |-> InitS]>>
Next ==
  /\ l <= Len(Trace)
  /\ l' = l + 1
  /\ LET e == Trace[l] IN
     CASE e.op = "pop"   -> stack' = SubSeq(stack, 1, Len(stack) - 1)
       [] e.op = "reset" -> stack' = <<[spec |-> InitS, obs |-> InitS]>>
       \* the call made after the previous line did not return within 30 s (a lock the registry kept, a wait nobody ends)
       [] e.op = "hang"  -> UNCHANGED stack /\ Chk(FALSE, "c15_registry_call_did_not_return")
       [] OTHER ->
          LET r    == StepR(Top.spec, e)
              pre  == Top.obs
              post == Observed(r.st, e)
          IN /\ stack' = Append(stack, [spec |-> r.st, obs |-> post])
             \* ---- C15 (registry part), judged on what the real registry did
             /\ Chk(e.res # "panic", "c15_registry_call_panicked")
             /\ Chk((e.op = "for" /\ e.res = "ok") => ~Top.spec.shut /\ (Top.spec.wm = NoneHV \/ ~Older(<<e.h, e.v>>, Top.spec.wm)),
                    "c15_issued_superseded")
             /\ Chk((e.op = "for" /\ e.res = "ok") => post.status[<<e.h, e.v>>] = "live", "c15_handed_out_cancelled_context")
             /\ Chk(NeverStaleIssue(pre, post), "c15_issued_superseded")
             /\ Chk(LiveOK(post), "c15_not_released")
             /\ Chk(OnlyOlderCancelled(pre, post), "c15_cancelled_current_or_future")
             \* ---- conformance with the specification (reported as drift, not as a violation)
             /\ Chk(e.res = r.res, "drift_result")
             /\ Chk(post.status = r.st.status, "drift_status")
Done == l = Len(Trace) + 1
=============================================================================
