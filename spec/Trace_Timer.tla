----------------------------- MODULE Trace_Timer -----------------------------
(* Traces of the REAL TimerBasedElectionTrigger under a randomised driver (register / stop /    *)
(* sleep, a prompt, slow or absent channel reader).  Times are microseconds of the monotonic     *)
(* clock since the start of the session; an arming is stamped when the call STARTS, a receive    *)
(* when it has happened, so "t_recv - t_arm >= timeout" is a sound reading of "not before".      *)
(* The monitor follows Timer.tla: one generation per effective registration.                     *)
EXTENDS Integers, Sequences, FiniteSets, TLC, Json, IOUtils
Trace == ndJsonDeserialize(IOEnv.VERIF_TRACE)
VARIABLES l, gens, cur
Chk(cond, tag) == cond \/ PrintT(<<"VERIF_BAD", tag, l>>)
RECURSIVE Pow2(_)
Pow2(n) == IF n = 0 THEN 1 ELSE 2 * Pow2(n - 1)
Timeout(base, v) == base * Pow2(v)          \* views are small here (0..5)
Init == l = 1 /\ gens = <<>> /\ cur = 0
\* unused armings of pair (h, v) old enough to have produced a trigger received at time t
Candidates(e) == {g \in DOMAIN gens : gens[g].h = e.h /\ gens[g].v = e.v /\ ~gens[g].used /\ gens[g].t0 + Timeout(e.base, e.v) <= e.t}
Next ==
  /\ l <= Len(Trace) /\ l' = l + 1
  /\ LET e == Trace[l] IN
     CASE e.ev = "session" -> gens' = <<>> /\ cur' = 0
       [] e.ev = "register" ->
            IF cur # 0 /\ gens[cur].h = e.h /\ gens[cur].v = e.v THEN UNCHANGED <<gens, cur>>      \* same pair: ignored by the trigger
            ELSE gens' = Append(gens, [h |-> e.h, v |-> e.v, t0 |-> e.t, used |-> FALSE]) /\ cur' = Len(gens) + 1
       [] e.ev = "stop" -> cur' = 0 /\ UNCHANGED gens
       [] e.ev = "recv" ->
            LET c == Candidates(e) IN
            /\ cur' = cur
            /\ gens' = IF c = {} THEN gens ELSE LET g == CHOOSE g \in c : \A k \in c : k <= g IN [gens EXCEPT ![g].used = TRUE]
            /\ Chk(\E g \in DOMAIN gens : gens[g].h = e.h /\ gens[g].v = e.v, "c19_trigger_for_a_pair_never_armed")
            /\ Chk((\E g \in DOMAIN gens : gens[g].h = e.h /\ gens[g].v = e.v /\ ~gens[g].used) => c # {}, "c19_trigger_before_timeout")
            /\ Chk(c # {} \/ ~(\E g \in DOMAIN gens : gens[g].h = e.h /\ gens[g].v = e.v) \/ (\E g \in DOMAIN gens : gens[g].h = e.h /\ gens[g].v = e.v /\ ~gens[g].used),
                   "c19_more_than_one_trigger_per_arming")
       [] e.ev = "final" ->
            /\ UNCHANGED <<gens, cur>>
            /\ Chk(e.armed => e.received, "c19_armed_timer_never_delivered")
            /\ Chk(e.received => (e.rh = e.h /\ e.rv = e.v), "c19_trigger_carries_other_pair")
       \* arming or stopping the timer is a total operation: a call that panics arms nothing and leaves the node without a timer
       [] e.ev = "panic" -> UNCHANGED <<gens, cur>> /\ Chk(FALSE, "c19_timer_call_panicked")
       \* ... and returns: no session finished for 60 s (a session takes well under a second)
       [] e.ev = "hang" -> UNCHANGED <<gens, cur>> /\ Chk(FALSE, "c19_timer_call_did_not_return")
       [] OTHER -> UNCHANGED <<gens, cur>>
=============================================================================
