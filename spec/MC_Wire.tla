------------------------------- MODULE MC_Wire -------------------------------
EXTENDS Wire, TLC
VARIABLE s
Init == s \in {x \in Shapes : ShapeOK(x)}
Next == UNCHANGED s
Inv == ShapeOK(s)
=============================================================================
