------------------------------- MODULE MC_LH2H -------------------------------
(* Two heights at the design level: the WHOLE-NODE functions of LHNode.tla (height filter, future cache, commit -> next round   *)
(* -> drain of the cache, node sync) composed with a network that keeps every message and a Byzantine member.  A node that is   *)
(* still deciding height 1 receives the traffic of height 2 into its future cache; when it closes height 1 the drain may decide  *)
(* height 2 in the middle.  The committee may differ between the heights (Hdr.com: a correct member may be out at height 2).     *)
(* Properties: agreement per height (C01), one commit per height and heights in order per node (C13), no equivocation per        *)
(* (height, view) (C10), only consumer-approved blocks (C04).                                                                   *)
EXTENDS LHNode
CONSTANTS MaxView1,     \* views 0..MaxView1 at height 1 (height 2 stays in view 0)
          Patient,      \* TRUE: a timer fires only when no delivery has any effect (random walks would otherwise time every view out)
          ByzBudget, Blocks, Hdr, Syncs   \* Syncs: whether node sync (UpdateState with the decided block of height 1) is explored
VARIABLES nodes, net, bz, approved, decided, signed, pc, ev
mcvars == <<hdr, nodes, net, bz, approved, decided, signed, pc, ev>>
View == <<nodes, net, bz, approved, decided, signed, pc>>

Heights == 1..2
Honest == Correct
B == CHOOSE b \in Byz : TRUE
N(h) == NCom(h)
Ldr(h, v) == LeaderM(h, v % N(h))
OkFor(b) == IF b = "-" \/ b = "X" THEN <<>> ELSE SetToSeq(Honest)
Name(n, k) == "b" \o n \o ToString(k)
Propose(n) == <<Name(n, pc[n] + 1), Name(n, pc[n] + 2)>>     \* a step proposes at most twice (elected at h, then first leader of h+1)

ProofOf(h, pv, px, ps) ==
  IF pv < 0 THEN [has |-> FALSE]
  ELSE [has |-> TRUE, ppht |-> "PP", ppinst |-> 0, pph |-> h, ppv |-> pv, ppvm |-> pv % N(h), ppx |-> px, pps |-> Ldr(h, pv), ppsig |-> TRUE,
        pht |-> "P", pinst |-> 0, ph |-> h, pv |-> pv, px |-> px, ps |-> ps]
VoteRec(h, s, v, pv, px, ps) == [ht |-> "VC", inst |-> 0, h |-> h, v |-> v, vm |-> v % N(h), s |-> s, sig |-> TRUE, canon |-> TRUE, proof |-> ProofOf(h, pv, px, ps)]
CanonPs(h, pv) == SetToSeq({[s |-> m, sig |-> TRUE] : m \in Members(h) \ {Ldr(h, pv)}})
ToMsg(d, n) ==
  LET h == d.h IN
  CASE d.k = "PP" -> [k |-> "PP", ht |-> "PP", inst |-> 0, h |-> h, v |-> d.v, vm |-> d.v % N(h), x |-> d.x, s |-> n, sig |-> TRUE, canon |-> TRUE,
                      blk |-> d.blk, bok |-> TRUE, okfor |-> OkFor(d.blk)]
    [] d.k = "P"  -> [k |-> "P", ht |-> "P", inst |-> 0, h |-> h, v |-> d.v, vm |-> d.v % N(h), x |-> d.x, s |-> n, sig |-> TRUE, canon |-> TRUE]
    [] d.k = "C"  -> [k |-> "C", ht |-> "C", inst |-> 0, h |-> h, v |-> d.v, vm |-> d.v % N(h), x |-> d.x, s |-> n, sig |-> TRUE, canon |-> TRUE, share |-> TRUE]
    [] d.k = "VC" -> VoteRec(h, n, d.v, d.pv, d.px, SetToSeq({[s |-> m, sig |-> TRUE] : m \in d.ps}))
                     @@ [k |-> "VC", blk |-> d.blk, bok |-> TRUE, to |-> d.to]
    [] d.k = "NV" -> [k |-> "NV", ht |-> "NV", inst |-> 0, h |-> h, v |-> d.v, vm |-> d.v % N(h), s |-> n, sig |-> TRUE,
                      votes |-> SetToSeq({VoteRec(h, t.s, d.v, t.pv, t.px, CanonPs(h, t.pv)) : t \in d.votes}),
                      pp |-> [ht |-> "PP", inst |-> 0, h |-> h, v |-> d.v, vm |-> d.v % N(h), x |-> d.x, s |-> n, sig |-> TRUE, canon |-> TRUE],
                      blk |-> d.blk, bok |-> TRUE, okfor |-> OkFor(d.blk)]

\* what the Byzantine member may send: proposals where it leads, PREPAREs and COMMITs for its blocks and for any block proposed so far
Seen(h) == {m.x : m \in {q \in net : q.k = "PP" /\ q.h = h}} \cup Blocks
ViewsOf(h) == IF h = 1 THEN 0..MaxView1 ELSE {0}
ByzMsgs ==
  UNION {
     {[k |-> "PP", ht |-> "PP", inst |-> 0, h |-> h, v |-> v, vm |-> v % N(h), x |-> x, s |-> B, sig |-> TRUE, canon |-> TRUE, blk |-> x, bok |-> TRUE, okfor |-> OkFor(x)] :
        v \in {u \in ViewsOf(h) : Ldr(h, u) = B}, x \in Blocks}
     \cup {[k |-> "P", ht |-> "P", inst |-> 0, h |-> h, v |-> v, vm |-> v % N(h), x |-> x, s |-> B, sig |-> TRUE, canon |-> TRUE] : v \in ViewsOf(h), x \in Seen(h)}
     \* a COMMIT carries a share over the random seed of its height, which derives from the block proof of the height before:
     \* nobody - the Byzantine member included - can make one for height 2 before height 1 has been decided somewhere
     \cup (IF h = 1 \/ \E k \in Honest : decided[k][1] # "-"
          THEN {[k |-> "C", ht |-> "C", inst |-> 0, h |-> h, v |-> v, vm |-> v % N(h), x |-> x, s |-> B, sig |-> TRUE, canon |-> TRUE, share |-> TRUE] : v \in ViewsOf(h), x \in Seen(h)}
          ELSE {})
     : h \in {g \in Heights : B \in Members(g)}}

Init == /\ hdr = Hdr
        /\ nodes = [n \in Honest |-> InitFull]
        /\ net = {} /\ bz = 0 /\ approved = {}
        /\ decided = [n \in Honest |-> [h \in Heights |-> "-"]]
        /\ signed = [n \in Honest |-> {}] /\ pc = [n \in Honest |-> 0]
        /\ ev = [t |-> "init"]

Apply(n, fr, h0) ==
  LET msgs == {ToMsg(fr.out[i], n) : i \in DOMAIN fr.out} IN
  /\ nodes' = [nodes EXCEPT ![n] = [ns |-> fr.ns, cache |-> fr.cache]]
  /\ net' = net \cup msgs
  /\ approved' = approved \cup {fr.vals[i].blk : i \in {j \in DOMAIN fr.vals : fr.vals[j].ok}}
  /\ decided' = [decided EXCEPT ![n] = [h \in Heights |-> IF h >= h0 /\ h - h0 + 1 <= Len(fr.commits) THEN fr.commits[h - h0 + 1] ELSE @[h]]]
  /\ signed' = [signed EXCEPT ![n] = @ \cup {<<m.k, m.h, m.v, IF m.k = "NV" THEN m.pp.x ELSE IF m.k = "VC" THEN "-" ELSE m.x>> : m \in msgs}]
  /\ pc' = [pc EXCEPT ![n] = @ + (2 - Len(fr.proposed))]

Running(n) == nodes[n].ns.h \in Heights
Start(n) == /\ nodes[n].ns.h = 0 /\ Apply(n, DoSync(nodes[n], n, 0, Propose(n)), 1) /\ UNCHANGED <<hdr, bz>>
            /\ ev' = [t |-> "start", n |-> n, post |-> nodes'[n].ns]
Recv(n, m) == /\ Running(n) /\ (m.k = "VC" => n \in m.to)
              /\ LET fr == Deliver(nodes[n], n, m, Propose(n)) IN
                 /\ (fr.ns # nodes[n].ns \/ fr.cache # nodes[n].cache \/ fr.out # <<>>)
                 /\ Apply(n, fr, nodes[n].ns.h)
                 /\ ev' = [t |-> "recv", n |-> n, m |-> m, post |-> fr.ns]
Eff(n, m) == /\ Running(n) /\ m.s # n /\ (m.k = "VC" => n \in m.to)
             /\ LET fr == Deliver(nodes[n], n, m, Propose(n)) IN fr.ns # nodes[n].ns \/ fr.cache # nodes[n].cache \/ fr.out # <<>>
Quiet == \A n \in Honest : \A m \in net : ~Eff(n, m)
Time(n) == /\ Running(n) /\ nodes[n].ns.member /\ ~nodes[n].ns.committed /\ (Patient => Quiet)
           /\ nodes[n].ns.view < (IF nodes[n].ns.h = 1 THEN MaxView1 ELSE 0)
           /\ Apply(n, DoTimeout(nodes[n], n, Propose(n)), nodes[n].ns.h) /\ UNCHANGED <<hdr, bz>>
           /\ ev' = [t |-> "time", n |-> n, post |-> nodes'[n].ns]
\* node sync: a node still at height 1 is handed the block some correct member decided there
Sync(n) == /\ Syncs /\ nodes[n].ns.h = 1 /\ \E k \in Honest : decided[k][1] # "-"
           /\ Apply(n, DoSync(nodes[n], n, 1, Propose(n)), 2) /\ UNCHANGED <<hdr, bz>>
           /\ ev' = [t |-> "sync", n |-> n, b |-> 1, post |-> nodes'[n].ns]
Next == \E n \in Honest :
          \/ Start(n) \/ Time(n) \/ Sync(n)
          \/ (\E m \in net : m.s # n /\ Recv(n, m) /\ UNCHANGED <<hdr, bz>>)
          \/ (bz < ByzBudget /\ \E m \in ByzMsgs : Recv(n, m) /\ bz' = bz + 1 /\ UNCHANGED hdr)
Spec == Init /\ [][Next]_mcvars

\* ---- properties
Agreement == \A a, b \in Honest, h \in Heights : decided[a][h] # "-" /\ decided[b][h] # "-" => decided[a][h] = decided[b][h]
ExternalValidity == \A n \in Honest, h \in Heights : decided[n][h] # "-" => decided[n][h] \in approved
NoEquivocation == \A n \in Honest : \A a, b \in signed[n] : (a[1] = b[1] /\ a[1] \in {"PP", "P", "C", "NV"} /\ a[2] = b[2] /\ a[3] = b[3]) => a[4] = b[4]
\* C13: a height is decided once, in order: a step never changes what was decided, and height 2 is decided only by a node that is past height 1
DecidedOnce == [][\A n \in Honest, h \in Heights : decided[n][h] # "-" => decided'[n][h] = decided[n][h]]_mcvars
HeightsForward == [][\A n \in Honest : nodes'[n].ns.h >= nodes[n].ns.h]_mcvars
\* C17 (with C08): whatever a node stores is for its own height: nothing of height 1 in the term of height 2 (stores carry no height: the
\* stored proposals of a node at height 2 were proposed for height 2 - by a leader of height 2 or by itself)
OnlyMembersAct == \A n \in Honest : (Running(n) /\ ~nodes[n].ns.member) => nodes[n].ns.pp = {} /\ nodes[n].ns.ps = {} /\ nodes[n].ns.cs = {}
=============================================================================
