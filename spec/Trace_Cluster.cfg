CONSTANT Dev = {"StandalonePP"}
INIT Init
NEXT Next
CHECK_DEADLOCK FALSE
