---------------------------- MODULE MC_LeanHelix ----------------------------
(* Design-level model checking of the node specification LHNode.tla (the same step functions   *)
(* that judge recorded executions of the real code): N correct nodes running Deliver /         *)
(* DoTimeout / DoSync of LHNode, a network that keeps every message ever sent (delivery in any  *)
(* order, any number of times, or never), and a Byzantine member that may send, at most         *)
(* ByzBudget times, anything it can build from its own key and the signed parts it has seen.    *)
(* One height is decided.  Properties: C01 (agreement), C04 (external validity), C07 (view > 0  *)
(* only on a valid certificate - with Dev = {} ), C10 (no equivocation).                        *)
EXTENDS LHNode
CONSTANTS MaxView,      \* views 0..MaxView
          ByzBudget,    \* number of Byzantine deliveries explored
          Blocks,       \* block names the Byzantine member may propose ("X..." = rejected by every consumer)
          Hdr           \* run header: committee, weights, Byzantine members, correct nodes
VARIABLES nodes,        \* correct node -> [ns, cache]
          net,          \* set of full abstract messages sent by correct nodes
          bz,           \* Byzantine deliveries used
          approved,     \* blocks some correct consumer validated (C04)
          decided,      \* correct node -> committed block or "-"
          signed,       \* correct node -> set of <<kind, view, hash>> it has signed (C10)
          ev            \* history: the event just taken (hidden from the exhaustive search by the VIEW)
mcvars == <<hdr, nodes, net, bz, approved, decided, signed, ev>>
View == <<nodes, net, bz, approved, decided, signed>>

H == 1
N == NCom(H)
Views == 0..MaxView
Ldr(v) == LeaderM(H, v % N)
B == CHOOSE b \in Byz : TRUE                       \* configs have exactly one Byzantine member
Honest == Correct
Rejected(b) == b \in {"X"}
OkFor(b) == IF Rejected(b) \/ b = "-" THEN <<>> ELSE SetToSeq(Honest)
Propose(n, v) == <<"b" \o n \o ToString(v)>>        \* the block n's consumer hands out when n leads view v

\* ---- digest (what LHNode says a node sends) -> full abstract message
CanonPs(pv) == SetToSeq({[s |-> m, sig |-> TRUE] : m \in Members(H) \ {Ldr(pv)}})
ProofOf(pv, px, ps) ==
  IF pv < 0 THEN [has |-> FALSE]
  ELSE [has |-> TRUE, ppht |-> "PP", ppinst |-> 0, pph |-> H, ppv |-> pv, ppvm |-> pv % N, ppx |-> px, pps |-> Ldr(pv), ppsig |-> TRUE,
        pht |-> "P", pinst |-> 0, ph |-> H, pv |-> pv, px |-> px, ps |-> ps]
VoteRec(s, v, pv, px, ps) == [ht |-> "VC", inst |-> 0, h |-> H, v |-> v, vm |-> v % N, s |-> s, sig |-> TRUE, canon |-> TRUE, proof |-> ProofOf(pv, px, ps)]
ToMsg(d, n) ==
  CASE d.k = "PP" -> [k |-> "PP", ht |-> "PP", inst |-> 0, h |-> H, v |-> d.v, vm |-> d.v % N, x |-> d.x, s |-> n, sig |-> TRUE, canon |-> TRUE,
                      blk |-> d.blk, bok |-> TRUE, okfor |-> OkFor(d.blk)]
    [] d.k = "P"  -> [k |-> "P", ht |-> "P", inst |-> 0, h |-> H, v |-> d.v, vm |-> d.v % N, x |-> d.x, s |-> n, sig |-> TRUE, canon |-> TRUE]
    [] d.k = "C"  -> [k |-> "C", ht |-> "C", inst |-> 0, h |-> H, v |-> d.v, vm |-> d.v % N, x |-> d.x, s |-> n, sig |-> TRUE, canon |-> TRUE, share |-> TRUE]
    [] d.k = "VC" -> VoteRec(n, d.v, d.pv, d.px, SetToSeq({[s |-> m, sig |-> TRUE] : m \in d.ps}))
                     @@ [k |-> "VC", blk |-> d.blk, bok |-> TRUE, to |-> d.to]
    [] d.k = "NV" -> [k |-> "NV", ht |-> "NV", inst |-> 0, h |-> H, v |-> d.v, vm |-> d.v % N, s |-> n, sig |-> TRUE,
                      votes |-> SetToSeq({VoteRec(t.s, d.v, t.pv, t.px, CanonPs(t.pv)) : t \in d.votes}),
                      pp |-> [ht |-> "PP", inst |-> 0, h |-> H, v |-> d.v, vm |-> d.v % N, x |-> d.x, s |-> n, sig |-> TRUE, canon |-> TRUE],
                      blk |-> d.blk, bok |-> TRUE, okfor |-> OkFor(d.blk)]

\* ---- what the Byzantine member B can send
HonestPrepares(v, x) == {m.s : m \in {q \in net : q.k = "P" /\ q.v = v /\ q.x = x}}
LeaderSigned(v, x) == Ldr(v) = B \/ \E m \in net : (m.k = "PP" /\ m.v = v /\ m.x = x) \/ (m.k = "NV" /\ m.v = v /\ m.pp.x = x)
ProofAvail(pv, px) == LeaderSigned(pv, px) /\ IsQuorum(H, ((HonestPrepares(pv, px) \cup {B}) \ {Ldr(pv)}) \cup {Ldr(pv)})
ByzProofs(v) == {<<-1, "-">>} \cup {<<pv, px>> \in (0..(v - 1)) \X Blocks : ProofAvail(pv, px)}
ByzVote(v, pr) == VoteRec(B, v, pr[1], pr[2], SetToSeq({[s |-> m, sig |-> TRUE] : m \in (HonestPrepares(pr[1], pr[2]) \cup {B}) \ {Ldr(pr[1])}}))
GenuineVotes(v) == {[ht |-> m.ht, inst |-> m.inst, h |-> m.h, v |-> m.v, vm |-> m.vm, s |-> m.s, sig |-> m.sig, canon |-> m.canon, proof |-> m.proof] :
                      m \in {q \in net : q.k = "VC" /\ q.v = v /\ B \in q.to}}
BlkOfProof(t) == IF t.proof.has THEN t.proof.ppx ELSE "-"
ByzMsgs ==
     {[k |-> "PP", ht |-> "PP", inst |-> 0, h |-> H, v |-> v, vm |-> v % N, x |-> x, s |-> B, sig |-> TRUE, canon |-> TRUE, blk |-> x, bok |-> TRUE, okfor |-> OkFor(x)] :
        v \in {u \in Views : Ldr(u) = B}, x \in Blocks}
  \cup {[k |-> "P", ht |-> "P", inst |-> 0, h |-> H, v |-> v, vm |-> v % N, x |-> x, s |-> B, sig |-> TRUE, canon |-> TRUE] : v \in Views, x \in Blocks}
  \cup {[k |-> "C", ht |-> "C", inst |-> 0, h |-> H, v |-> v, vm |-> v % N, x |-> x, s |-> B, sig |-> TRUE, canon |-> TRUE, share |-> TRUE] : v \in Views, x \in Blocks}
  \cup UNION {{ByzVote(v, pr) @@ [k |-> "VC", blk |-> pr[2], bok |-> TRUE, to |-> {Ldr(v)}] : pr \in ByzProofs(v)} : v \in Views \ {0}}
  \cup UNION {UNION {{[k |-> "NV", ht |-> "NV", inst |-> 0, h |-> H, v |-> v, vm |-> v % N, s |-> B, sig |-> TRUE,
                       votes |-> SetToSeq(vs \cup {ByzVote(v, pr)}),
                       pp |-> [ht |-> "PP", inst |-> 0, h |-> H, v |-> v, vm |-> v % N, x |-> x, s |-> B, sig |-> TRUE, canon |-> TRUE],
                       blk |-> x, bok |-> TRUE, okfor |-> OkFor(x)] :
                        vs \in SUBSET GenuineVotes(v), pr \in ByzProofs(v)} : x \in Blocks}
              : v \in {u \in Views \ {0} : Ldr(u) = B}}

\* messages that only matter when a guard is ablated: unsigned / forged parts, wrong roles, stale votes, made-up proofs
FakeProof(pv, px) == [ProofOf(pv, px, SetToSeq({[s |-> m, sig |-> FALSE] : m \in Honest \ {Ldr(pv)}})) EXCEPT !.ppsig = (Ldr(pv) = B)]
UnsignedVote(s, v) == [VoteRec(s, v, -1, "-", <<>>) EXCEPT !.sig = FALSE]
NVOf(v, votes, x) == [k |-> "NV", ht |-> "NV", inst |-> 0, h |-> H, v |-> v, vm |-> v % N, s |-> B, sig |-> TRUE, votes |-> SetToSeq(votes),
                      pp |-> [ht |-> "PP", inst |-> 0, h |-> H, v |-> v, vm |-> v % N, x |-> x, s |-> B, sig |-> TRUE, canon |-> TRUE],
                      blk |-> x, bok |-> TRUE, okfor |-> OkFor(x)]
ByzDefective ==
     {[k |-> "PP", ht |-> "PP", inst |-> 0, h |-> H, v |-> v, vm |-> v % N, x |-> x, s |-> B, sig |-> TRUE, canon |-> TRUE, blk |-> x, bok |-> TRUE, okfor |-> OkFor(x)] :
        v \in Views, x \in Blocks}
  \cup {[k |-> kk, ht |-> kk, inst |-> 0, h |-> H, v |-> v, vm |-> v % N, x |-> x, s |-> hs, sig |-> FALSE, canon |-> TRUE, share |-> TRUE] :
        kk \in {"P", "C"}, v \in Views, x \in Blocks, hs \in Honest}
  \cup UNION {{NVOf(v, {UnsignedVote(hs, v) : hs \in Honest} \cup {ByzVote(v, <<-1, "-">>)}, x) : x \in Blocks} : v \in {u \in Views \ {0} : Ldr(u) = B}}
  \cup UNION {{NVOf(v, {[t EXCEPT !.v = t.v] : t \in UNION {GenuineVotes(u) : u \in 1..(v - 1)}} \cup {ByzVote(v, <<-1, "-">>)}, x) : x \in Blocks}
              : v \in {u \in Views \ {0} : Ldr(u) = B}}
  \cup UNION {{NVOf(v, GenuineVotes(v) \cup {[VoteRec(B, v, pv, x, <<>>) EXCEPT !.proof = FakeProof(pv, x)]}, x) : x \in Blocks, pv \in 0..(v - 1)}
              : v \in {u \in Views \ {0} : Ldr(u) = B}}
  \cup UNION {{[VoteRec(B, v, pv, x, <<>>) EXCEPT !.proof = FakeProof(pv, x)] @@ [k |-> "VC", blk |-> x, bok |-> TRUE, to |-> {Ldr(v)}] :
                 x \in Blocks, pv \in 0..(v - 1)} : v \in Views \ {0}}
ByzAll == IF Ablate = {} THEN ByzMsgs ELSE ByzMsgs \cup ByzDefective

\* ---- the system
Init == /\ hdr = Hdr
        /\ nodes = [n \in ToSet(Hdr.nodes) |-> InitFull]
        /\ net = {} /\ bz = 0 /\ approved = {} /\ decided = [n \in ToSet(Hdr.nodes) |-> "-"]
        /\ signed = [n \in ToSet(Hdr.nodes) |-> {}]
        /\ ev = [t |-> "init"]

Apply(n, fr) ==
  LET msgs == {ToMsg(fr.out[i], n) : i \in DOMAIN fr.out} IN
  /\ nodes' = [nodes EXCEPT ![n] = [ns |-> fr.ns, cache |-> fr.cache]]
  /\ net' = net \cup msgs
  /\ approved' = approved \cup {fr.vals[i].blk : i \in {j \in DOMAIN fr.vals : fr.vals[j].ok}}
  /\ decided' = [decided EXCEPT ![n] = IF fr.commits = <<>> THEN @ ELSE fr.commits[1]]
  /\ signed' = [signed EXCEPT ![n] = @ \cup {<<m.k, m.v, IF m.k = "NV" THEN m.pp.x ELSE IF m.k = "VC" THEN "-" ELSE m.x>> : m \in msgs}]

Active(n) == decided[n] = "-"
Start(n) == /\ nodes[n].ns.h = 0 /\ Apply(n, DoSync(nodes[n], n, 0, Propose(n, 0))) /\ UNCHANGED <<hdr, bz>>
            /\ ev' = [t |-> "start", n |-> n, post |-> nodes'[n].ns]
Recv(n, m) == /\ Active(n) /\ nodes[n].ns.h = H
              /\ (m.k = "VC" => n \in m.to)
              /\ LET fr == Deliver(nodes[n], n, m, Propose(n, IF m.k = "VC" THEN m.v ELSE 0)) IN
                 /\ (fr.ns # nodes[n].ns \/ fr.out # <<>>)          \* deliveries without any effect are stuttering
                 /\ Apply(n, fr)
                 /\ ev' = [t |-> "recv", n |-> n, m |-> m, post |-> fr.ns]
Time(n) == /\ Active(n) /\ nodes[n].ns.h = H /\ nodes[n].ns.view < MaxView
           /\ Apply(n, DoTimeout(nodes[n], n, Propose(n, nodes[n].ns.view + 1))) /\ UNCHANGED <<hdr, bz>>
           /\ ev' = [t |-> "time", n |-> n, post |-> nodes'[n].ns]
Next == \E n \in Honest :
          \/ Start(n) \/ Time(n)
          \/ (\E m \in net : m.s # n /\ Recv(n, m) /\ UNCHANGED <<hdr, bz>>)
          \/ (bz < ByzBudget /\ \E m \in ByzAll : Recv(n, m) /\ bz' = bz + 1 /\ UNCHANGED hdr)
Spec == Init /\ [][Next]_mcvars

\* ---- properties
Agreement == \A a, b \in Honest : decided[a] # "-" /\ decided[b] # "-" => decided[a] = decided[b]
ExternalValidity == \A n \in Honest : decided[n] # "-" => decided[n] \in approved
NoRejectedCommitted == \A n \in Honest : ~Rejected(decided[n])
NoEquivocation == \A n \in Honest : \A a, b \in signed[n] : (a[1] = b[1] /\ a[1] \in {"PP", "P", "C", "NV"} /\ a[2] = b[2]) => a[3] = b[3]
\* C07: a correct follower holds a proposal for a view above 0 only if a valid NEW_VIEW for that view exists
HigherViewOnlyByCertificate ==
  \A n \in Honest : \A p \in nodes[n].ns.pp : (p.v > 0 /\ p.s # n) =>
     \E m \in net \cup ByzMsgs : m.k = "NV" /\ m.v = p.v /\ m.pp.x = p.x /\ ValidNewView(m, n, H)
\* the lock of LHAbstract.tla (Locked) read off the node-level state: once correct members that signed COMMIT(v, x) reach a quorum together
\* with the Byzantine member, no correct member signs a proposal or a PREPARE for another block in a higher view
LockedNodeLevel ==
  \A n0 \in Honest : \A c \in signed[n0] : c[1] = "C" =>
     (IsQuorum(H, {n \in Honest : <<"C", c[2], c[3]>> \in signed[n]} \cup {B}) =>
        \A n \in Honest : \A t \in signed[n] : (t[1] \in {"P", "PP", "NV"} /\ t[2] > c[2]) => t[3] = c[3])
TypeOK == bz \in 0..ByzBudget
\* reachability goals: TLC's counterexample to "never" is a shortest witness behaviour, replayed into the real code
NeverCommitInHigherView == \A n \in Honest : ~(decided[n] # "-" /\ nodes[n].ns.view > 0 /\ nodes[n].ns.h = 1 /\ nodes[n].ns.committed)
NeverLockedNewView == ~\E m \in net : m.k = "NV" /\ \E i \in DOMAIN m.votes : m.votes[i].proof.has
NeverTwoProposalsStored == \A n \in Honest : Cardinality(nodes[n].ns.pp) < 2
NeverByzantineBlockCommitted == \A n \in Honest : decided[n] \notin Blocks
NeverElectedWithByzantineVote == ~\E m \in net : m.k = "NV" /\ \E i \in DOMAIN m.votes : m.votes[i].s = B
=============================================================================
