-------------------------- MODULE MC_ViewContexts --------------------------
EXTENDS ViewContexts, TLC
VARIABLES s, res
vars == <<s, res>>
Init == s = InitS /\ res = "init"
Next == \/ \E p \in P : (s' = ForR(s, p).st /\ res' = ForR(s, p).res)
        \/ \E p \in P : (s' = CancelR(s, p).st /\ res' = "ok")
        \/ (s' = ShutdownR(s).st /\ res' = "ok")
View == s
InvLiveOK == LiveOK(s)
PropNeverStaleIssue == [][NeverStaleIssue(s, s')]_vars
PropOnlyOlderCancelled == [][OnlyOlderCancelled(s, s')]_vars
PropNoResurrection == [][NoResurrection(s, s')]_vars
\* released: right after CancelOlderThan(p) / Shutdown nothing older than p / nothing at all is live
PropReleased == [][\A q \in P : s'.status[q] = "live" => ~s'.shut /\ (s'.wm = NoneHV \/ ~Older(q, s'.wm))]_vars
=============================================================================
