package main

import (
	"context"
	"flag"
	"fmt"
	"math"
	"sort"
	"strings"
	"time"

	"github.com/orbs-network/lean-helix-go/spec/types/go/primitives"
	"github.com/orbs-network/lean-helix-go/state"
)

func init() { register("vctx", cmdVctx) }

type vcOp struct {
	op   string // for | cancel | shutdown
	h, v int    // abstract view 9 = MaxUint64
}

func concView(v int) primitives.View {
	if v == 9 {
		return primitives.View(math.MaxUint64)
	}
	return primitives.View(v)
}

type vcRun struct {
	reg    *state.ViewContexts
	issued map[[2]int][]context.Context
}

func newVcRun() *vcRun {
	return &vcRun{reg: state.NewViewContexts(), issued: map[[2]int][]context.Context{}}
}

func (r *vcRun) apply(o vcOp) (res string) {
	defer func() {
		if rec := recover(); rec != nil {
			res = "panic"
		}
	}()
	hv := state.NewHeightView(primitives.BlockHeight(o.h), concView(o.v))
	switch o.op {
	case "for":
		ctx, err := r.reg.For(hv)
		if err != nil {
			if strings.Contains(err.Error(), "shutting down") {
				return "shutdown"
			}
			return "stale"
		}
		if ctx == nil {
			return "nilctx"
		}
		r.issued[[2]int{o.h, o.v}] = append(r.issued[[2]int{o.h, o.v}], ctx)
		return "ok"
	case "cancel":
		r.reg.CancelOlderThan(hv)
	case "shutdown":
		r.reg.Shutdown()
	}
	return "ok"
}

// obs: status of every position handed out so far; a position is "live" if the context most
// recently handed out for it is not done.
func (r *vcRun) obs() [][]interface{} {
	keys := make([][2]int, 0, len(r.issued))
	for k := range r.issued {
		keys = append(keys, k)
	}
	sort.Slice(keys, func(i, j int) bool {
		return keys[i][0] < keys[j][0] || (keys[i][0] == keys[j][0] && keys[i][1] < keys[j][1])
	})
	out := [][]interface{}{}
	for _, k := range keys {
		l := r.issued[k]
		st := "cancelled"
		if l[len(l)-1].Err() == nil {
			st = "live"
		}
		out = append(out, []interface{}{k[0], k[1], st})
	}
	return out
}

func (o vcOp) line(res string, obs [][]interface{}) obj {
	return obj{"op": o.op, "h": o.h, "v": o.v, "res": res, "obs": obs}
}

func cmdVctx(args []string) int {
	fs := flag.NewFlagSet("vctx", flag.ExitOnError)
	outPath := fs.String("out", "vctx.ndjson", "")
	seed := fs.Int64("seed", 1, "")
	depth := fs.Int("depth", 4, "tree depth (all call sequences up to this length)")
	heights := fs.Int("heights", 2, "heights 1..n")
	views := fs.String("views", "0,1,9", "abstract views (9 = MaxUint64)")
	nRand := fs.Int("rand", 200, "random sequences")
	randLen := fs.Int("randlen", 60, "")
	replay := fs.String("replay", "", "")
	fs.Parse(args)
	rnd := newRand(*seed)
	out := newNdjson(*outPath)
	out.watchdog(30*time.Second, func() obj { return obj{"op": "hang", "h": 0, "v": 0, "res": "hang", "obs": [][]interface{}{}} })
	defer out.close()

	if *replay != "" { // a recorded path: re-execute the same calls on a fresh registry
		run := newVcRun()
		for _, e := range readNdjson(*replay) {
			switch e["op"] {
			case "pop":
				continue
			case "reset":
				run = newVcRun()
				out.emit(obj{"op": "reset"})
			default:
				o := vcOp{e["op"].(string), int(e["h"].(float64)), int(e["v"].(float64))}
				res := run.apply(o)
				out.emit(o.line(res, run.obs()))
			}
		}
		fmt.Printf("lines=%d\n", out.n)
		return 0
	}

	var vs []int
	for _, s := range strings.Split(*views, ",") {
		var v int
		fmt.Sscanf(s, "%d", &v)
		vs = append(vs, v)
	}
	var ops []vcOp
	for h := 1; h <= *heights; h++ {
		for _, v := range vs {
			ops = append(ops, vcOp{"for", h, v}, vcOp{"cancel", h, v})
		}
	}
	ops = append(ops, vcOp{"shutdown", 0, 0})

	// tree walk: the real registry of a node is rebuilt by replaying its path (registries cannot be cloned)
	nodes := 0
	var walk func(path []vcOp)
	walk = func(path []vcOp) {
		if len(path) == *depth {
			return
		}
		for _, o := range ops {
			run := newVcRun()
			for _, p := range path {
				run.apply(p)
			}
			res := run.apply(o)
			out.emit(o.line(res, run.obs()))
			nodes++
			walk(append(path, o))
			out.emit(obj{"op": "pop"})
		}
	}
	walk(nil)

	// long random sequences (biased towards increasing positions, as the runtime uses the registry)
	for i := 0; i < *nRand; i++ {
		out.emit(obj{"op": "reset"})
		run := newVcRun()
		for j := 0; j < *randLen; j++ {
			o := ops[rnd.Intn(len(ops))]
			if o.op == "shutdown" && rnd.Intn(10) != 0 {
				continue
			}
			res := run.apply(o)
			out.emit(o.line(res, run.obs()))
		}
	}
	fmt.Printf("lines=%d tree_nodes=%d ops=%d\n", out.n, nodes, len(ops))
	return 0
}
