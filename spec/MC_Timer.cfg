CONSTANTS Pairs <- cPairs MaxGen = 4
SPECIFICATION Spec
INVARIANTS AtMostOnePerArming CarriesItsPair NotFromStopped
PROPERTIES EventuallyDelivered
CHECK_DEADLOCK FALSE
