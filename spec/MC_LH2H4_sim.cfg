CONSTANTS Patient = TRUE MaxView1 = 2 ByzBudget = 3 Blocks <- cBlocks Hdr <- cHdrSame Syncs = TRUE Dev = {} Ablate = {}
INIT Init
NEXT Next
INVARIANTS Agreement ExternalValidity NoEquivocation OnlyMembersAct
PROPERTIES DecidedOnce HeightsForward
CHECK_DEADLOCK FALSE
