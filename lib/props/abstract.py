"""LHAbstract.tla - the safety argument of one height with the messages abstracted away (C01 at the design level).

quick:    TLC, exhaustive: N = 4 unit weights, member 1 Byzantine, views 0..1, two blocks: Agreement and the lemmas (IndInv);
          the same instance with the deviation H2 switched on must yield the fork (non-vacuity: the model can express one).
thorough: TLC, exhaustive: views 0..2 for unit weights, the weighted committee (3,2,2,1; the Byzantine member holds f = 2) and
          five members; random walks over views 0..4 and over seven weighted members; Apalache on LHAbstractInd.tla (the lemmas as an
          inductive invariant, N = 4, views 0..2) under a time limit - what it does not decide is recorded as not decided.
A failure here is a matter of the specification (exit 2), never a verdict about the code."""
import vlib

QUICK = [("MC_LHAbs_v1.cfg", "N=4, unit weights, member 1 Byzantine, views 0..1, 2 blocks"),
         ("MC_LHAbs_w1.cfg", "N=4, weights 3,2,2,1, member 2 (weight f = 2) Byzantine, views 0..1")]
THOROUGH = [("MC_LHAbs_quick.cfg", "N=4, unit weights, member 1 Byzantine, views 0..2, 2 blocks"),
            ("MC_LHAbs_w.cfg", "N=4, weights 3,2,2,1, member 2 (weight f = 2) Byzantine, views 0..2"),
            ("MC_LHAbs_5.cfg", "N=5, unit weights, member 1 Byzantine, views 0..2")]


def design(rep, tier):
    for cfg, what in (QUICK if tier == "quick" else THOROUGH):
        r = vlib.tlc_must_pass("MC_LHAbs", cfg, timeout=3000)
        if r.violated:
            raise vlib.Inconclusive("LHAbstract.tla: %s is violated in %s (design level: the abstract model or its lemmas are wrong)" % (r.violated, cfg))
        rep.add_tlc(r, "LHAbstract.tla, exhaustive (%s): Agreement and the lemmas AcceptedIsSigned, PreparedHasCertificate, "
                       "VotesReportTheLock, UniqueCertificatePerView, Locked" % what)
    # non-vacuity: with the deviation of the known finding H2 the same model forks
    r = vlib.tlc("MC_LHAbs", "MC_LHAbs_h2.cfg", timeout=600)
    if r.violated != "Agreement":
        raise vlib.Inconclusive("LHAbstract.tla with Dev = {h2} does not yield the fork (%s): the abstract model lost its teeth" % (r.violated or r.error))
    rep.parts.append({"what": "LHAbstract.tla with the deviation H2 (bare PREPREPARE accepted above view 0): TLC finds the fork", "states": r.generated})
    if tier == "thorough":
        # deeper than the exhaustive instances: random walks over views 0..4 (N = 4) and over seven weighted members (views 0..3)
        for cfg, num, what in (("MC_LHAbs_sim.cfg", 20000, "N=4, views 0..4"), ("MC_LHAbs_sim7.cfg", 1500, "N=7, weights 3,3,2,2,1,1,1, members 1 and 6 (weight f = 4) Byzantine, views 0..3")):
            r = vlib.tlc("MC_LHAbs", cfg, timeout=3000, workers=4, simulate="num=%d" % num, extra=["-depth", "90"])
            if r.violated or "Error:" in r.output:
                raise vlib.Inconclusive("LHAbstract.tla: random walk of %s: %s (design level)" % (cfg, r.violated or r.output[-800:]))
            rep.parts.append({"what": "LHAbstract.tla, random walks with Agreement and the lemmas checked in every state (%s)" % what,
                              "walks_per_worker": num, "workers": 4})
        # Apalache: the lemmas as an inductive invariant.  Not finishing is not a failure of anything: recorded as "not decided".
        # (measured: views 0..1: 10 s / 4 min / 15 min; views 0..2: the inductive step is beyond an hour - tried offline, DESIGN.md 5 C01)
        for mod, init, inv, n, what, limit in (("LHAbstractInd1", "Init", "IndInv", 0, "views 0..1: the initial state satisfies IndInv", 300),
                                               ("LHAbstractInd1", "IndInit", "Agreement", 0, "views 0..1: IndInv implies Agreement", 1500),
                                               ("LHAbstractInd1", "IndInit", "IndInv", 1, "views 0..1: every step from ANY state satisfying IndInv preserves it", 3000),
                                               ("LHAbstractInd", "Init", "IndInv", 0, "views 0..2: the initial state satisfies IndInv", 300)):
            try:
                ok, out, secs = vlib.apalache(mod, init, inv, n, timeout=limit, heap="12G")
            except vlib.Inconclusive as e:
                rep.parts.append({"what": "Apalache, %s.tla: " % mod + what, "outcome": "not decided within %d s (%s)" % (limit, str(e)[:120])})
                continue
            if ok:
                rep.parts.append({"what": "Apalache, %s.tla: " % mod + what, "outcome": "holds", "seconds": round(secs, 1)})
            elif "The outcome is: Error" in out and "violat" in out.lower():
                raise vlib.Inconclusive("Apalache: " + mod + " %s => %s has a counterexample (specification matter):\n%s" % (init, inv, out))
            else:
                rep.parts.append({"what": "Apalache, %s.tla: " % mod + what, "outcome": "not decided (%s)" % out[-200:].replace("\n", " ")})
