----------------------------- MODULE Trace_Filter -----------------------------
(* Tree traces recorded from the real RawMessageFilter + state.State with a recording        *)
(* handler that "commits" (starts the next round from inside the delivery) when told to.      *)
(* Lines: recv / start with the observed deliveries [[id, handlerHeight]...], pop, reset.     *)
(* Stack element: specification state, receive log, ids delivered so far (history).           *)
EXTENDS Filter, Json, IOUtils
Trace == ndJsonDeserialize(IOEnv.VERIF_TRACE)
VARIABLES l, stack
Chk(cond, tag) == cond \/ PrintT(<<"VERIF_BAD", tag, l>>)
Top == stack[Len(stack)]
Root == [spec |-> InitS, log |-> <<>>, done |-> <<>>]

Ids(out) == {out[i][1] : i \in DOMAIN out}

\* ---- C17 on the observed deliveries of one operation
Judge(node, log2, e, obs) ==
  LET all == node.done \o obs IN
  /\ Chk(~e.panic, "c17_filter_call_panicked")
  /\ Chk(\A i \in DOMAIN obs : log2[obs[i][1]].h = obs[i][2], "c17_delivered_to_other_height")
  /\ Chk(\A i \in DOMAIN obs : log2[obs[i][1]].inst = "me" /\ ~log2[obs[i][1]].self, "c17_ineligible_delivered")
  /\ Chk(\A i, j \in DOMAIN all : all[i][1] = all[j][1] => i = j, "c17_delivered_twice")
  /\ Chk(\A i, j \in DOMAIN all : (i < j /\ log2[all[i][1]].h = log2[all[j][1]].h) => all[i][1] < all[j][1], "c17_not_fifo")
  \* guaranteed delivery when the node starts height H, provided no accepted-for-caching message for a
  \* height above H was received before that moment (latest <= H; "latest" is a function of the receive
  \* history alone), and no delivery commits before the message's turn
  /\ Chk((e.op = "start" /\ e.h > node.spec.cur /\ node.spec.latest <= e.h) =>
           LET G == SelectSeq(log2, LAMBDA m : m.guar /\ m.h = e.h /\ m.id \notin Ids(node.done)) IN
             IF e.pat = "none" THEN \A i \in DOMAIN G : G[i].id \in Ids(obs)
             ELSE G # <<>> => G[1].id \in Ids(obs), "c17_cached_message_lost")

Init == l = 1 /\ stack = <<Root>>
Next ==
  /\ l <= Len(Trace)
  /\ l' = l + 1
  /\ LET e == Trace[l] IN
     CASE e.op = "pop"   -> stack' = SubSeq(stack, 1, Len(stack) - 1)
       [] e.op = "reset" -> stack' = <<Root>>
       [] e.op = "hang"  -> UNCHANGED stack /\ Chk(FALSE, "c17_filter_call_did_not_return")   \* no line for 30 s
       [] e.op = "recv" ->
            LET m    == [id |-> Len(Top.log) + 1, h |-> e.h, inst |-> e.inst, self |-> e.self,
                         guar |-> e.inst = "me" /\ ~e.self /\ e.h > Top.spec.cur]
                log2 == Append(Top.log, m)
                r    == RecvR(Top.spec, m, e.pat)
            IN /\ stack' = Append(stack, [spec |-> r.st, log |-> log2, done |-> Top.done \o e.out])
               /\ Judge(Top, log2, e, e.out)
               /\ Chk(e.out = r.out, "drift_deliveries")
               /\ Chk(e.cur = r.st.cur, "drift_height")
       [] e.op = "start" ->
            LET r == StartR(Top.spec, e.h, e.pat)
            IN /\ stack' = Append(stack, [spec |-> r.st, log |-> Top.log, done |-> Top.done \o e.out])
               /\ Judge(Top, Top.log, e, e.out)
               /\ Chk(e.out = r.out, "drift_deliveries")
               /\ Chk(e.cur = r.st.cur, "drift_height")
=============================================================================
