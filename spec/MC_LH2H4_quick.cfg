CONSTANTS MaxView1 = 0 ByzBudget = 1 Blocks <- cBlocks Hdr <- cHdrSame Syncs = TRUE Dev = {} Ablate = {}
INIT Init
NEXT Next
INVARIANTS Agreement ExternalValidity NoEquivocation OnlyMembersAct
PROPERTIES DecidedOnce HeightsForward
VIEW View
CHECK_DEADLOCK FALSE
