package main

// Function table of the real prepared-proof validator (proofsvalidator.ValidatePreparedProof, the rule behind C07-C09
// and C11): every key is held by the table builder, so a proof can be made fully valid and then changed in exactly one
// respect - each rejection branch of the validator is reached with everything else in order.  TLC recomputes the verdict
// from LHMessages!ValidProof on the harness's own parse of the proof bytes (ground-truth signature flags).

import (
	"flag"
	"fmt"

	"github.com/orbs-network/lean-helix-go/services/proofsvalidator"
	"github.com/orbs-network/lean-helix-go/services/termincommittee"
	"github.com/orbs-network/lean-helix-go/spec/types/go/primitives"
	"github.com/orbs-network/lean-helix-go/spec/types/go/protocol"
)

func init() { register("proofs", cmdProofs) }

type proofCase struct {
	weights []uint64
	rotate  bool
	h, tv   uint64
	d       proofD
	dev     string
}

var proofOnly map[int]bool // replay: indices of the cases to recompute
var proofIdx int
var proofSeed int64
var proofNRand int

func runProofCase(out *ndjson, c proofCase) {
	proofIdx++
	if proofOnly != nil && !proofOnly[proofIdx] {
		return
	}
	cl := newCluster(c.weights, nil, 1, c.rotate)
	defer cl.close()
	cl.addBody("the-block")
	cl.addBody("another-block")
	for i := 0; i < cl.nMembers; i++ {
		cl.byz[i] = true // the table builder may sign as anybody
	}
	adv := newAdversary(cl)
	com := cl.committeeAt(c.h)
	pr := adv.proofBuilder(c.d).Build()
	res, panicked := false, false
	func() {
		defer func() {
			if r := recover(); r != nil {
				panicked = true
			}
		}()
		res = proofsvalidator.ValidatePreparedProof(primitives.BlockHeight(c.h), primitives.View(c.tv), pr, &nodeKeyManager{ring: cl.ring, me: cl.ids[0]}, com,
			func(v primitives.View) primitives.MemberId { return termincommittee.VerifLeaderOf(v, com) })
	}()
	w := obj{}
	for i := 0; i < cl.nMembers; i++ {
		w[idName(i)] = int(cl.weights[i])
	}
	coms := [][]string{}
	for h := uint64(0); h <= c.h+2; h++ {
		coms = append(coms, cl.committeeNames(h))
	}
	out.emit(obj{"com": coms, "w": w, "h": absNum(c.h), "tv": absNum(c.tv), "proof": cl.proofAbs(pr), "accepted": res, "panic": panicked, "dev": c.dev, "idx": proofIdx, "seed": proofSeed, "nrand": proofNRand})
}

func cmdProofs(args []string) int {
	fs := flag.NewFlagSet("proofs", flag.ExitOnError)
	outPath := fs.String("out", "proofs.ndjson", "")
	seed := fs.Int64("seed", 1, "")
	nRand := fs.Int("rand", 400, "random combinations of deviations")
	replay := fs.String("replay", "", "recompute the cases of these lines")
	fs.Parse(args)
	proofIdx, proofOnly, proofSeed = 0, nil, *seed
	if *replay != "" {
		proofOnly = map[int]bool{}
		for _, e := range readNdjson(*replay) {
			proofOnly[int(e["idx"].(float64))] = true
			proofSeed = int64(e["seed"].(float64))
			*nRand = int(e["nrand"].(float64))
		}
	}
	proofNRand = *nRand
	rnd := newRand(proofSeed)
	out := newNdjson(*outPath)
	defer out.close()
	grids := [][]uint64{{1, 1, 1, 1}, {1, 2, 3, 4}, {1, 1, 1, 1, 3}, {2, 2, 2, 2, 2, 2, 2}, {0, 1, 1, 1, 1}}
	const h = 3
	type devT struct {
		name string
		f    func(cl *cluster, c *proofCase)
	}
	other := func() primitives.BlockHash { return hashOfBody("another-block") }
	devs := []devT{
		{"", func(cl *cluster, c *proofCase) {}},
		{"pp_type_prepare", func(cl *cluster, c *proofCase) { c.d.pp.ht = protocol.LEAN_HELIX_PREPARE }},
		{"pp_type_commit", func(cl *cluster, c *proofCase) { c.d.pp.ht = protocol.LEAN_HELIX_COMMIT }},
		{"p_type_preprepare", func(cl *cluster, c *proofCase) { c.d.p.ht = protocol.LEAN_HELIX_PREPREPARE }},
		{"p_type_commit", func(cl *cluster, c *proofCase) { c.d.p.ht = protocol.LEAN_HELIX_COMMIT }},
		{"pp_other_instance", func(cl *cluster, c *proofCase) { c.d.pp.inst++ }},
		{"p_other_instance", func(cl *cluster, c *proofCase) { c.d.p.inst++ }},
		{"both_other_instance", func(cl *cluster, c *proofCase) { c.d.pp.inst++; c.d.p.inst++ }},
		{"pp_other_height", func(cl *cluster, c *proofCase) { c.d.pp.h++ }},
		{"p_other_height", func(cl *cluster, c *proofCase) { c.d.p.h++ }},
		{"both_other_height", func(cl *cluster, c *proofCase) { c.d.pp.h++; c.d.p.h++ }},
		{"both_lower_height", func(cl *cluster, c *proofCase) { c.d.pp.h--; c.d.p.h-- }},
		{"view_is_target", func(cl *cluster, c *proofCase) { c.d.pp.v, c.d.p.v = c.tv, c.tv; c.d.ppBy = leaderAt(cl, c.h, c.tv) }},
		{"view_above_target", func(cl *cluster, c *proofCase) { c.d.pp.v, c.d.p.v = c.tv+1, c.tv+1; c.d.ppBy = leaderAt(cl, c.h, c.tv+1) }},
		{"p_view_older", func(cl *cluster, c *proofCase) {
			if c.d.p.v > 0 {
				c.d.p.v--
			} else {
				c.d.p.v++
			}
		}},
		{"pp_view_later_same_leader", func(cl *cluster, c *proofCase) { c.d.pp.v += uint64(cl.nMembers) }}, // same leader, PREPAREs of the older view
		{"p_other_hash", func(cl *cluster, c *proofCase) { c.d.p.hash = other() }},
		{"pp_other_hash", func(cl *cluster, c *proofCase) { c.d.pp.hash = other() }},
		{"pp_by_non_leader", func(cl *cluster, c *proofCase) { c.d.ppBy = leaderAt(cl, c.h, c.d.pp.v+1) }},
		{"pp_by_outsider", func(cl *cluster, c *proofCase) { c.d.ppBy = cl.ids[cl.nMembers] }},
		{"pp_sig_forged", func(cl *cluster, c *proofCase) { c.d.ppMode = "forged" }},
		{"pp_sig_empty", func(cl *cluster, c *proofCase) { c.d.ppMode = "empty" }},
		{"one_p_sig_forged", func(cl *cluster, c *proofCase) {
			if len(c.d.pBy) > 0 {
				c.d.pModes[len(c.d.pBy)-1] = "forged"
			}
		}},
		{"leader_among_p_senders", func(cl *cluster, c *proofCase) { c.d.pBy, c.d.pModes = append(c.d.pBy, c.d.ppBy), append(c.d.pModes, "") }},
		{"outsider_among_p_senders", func(cl *cluster, c *proofCase) {
			c.d.pBy, c.d.pModes = append(c.d.pBy, cl.ids[cl.nMembers]), append(c.d.pModes, "")
		}},
		{"duplicate_p_sender", func(cl *cluster, c *proofCase) {
			if len(c.d.pBy) > 0 {
				c.d.pBy, c.d.pModes = append(c.d.pBy, c.d.pBy[0]), append(c.d.pModes, "")
			}
		}},
		{"duplicate_p_sender_first_twice", func(cl *cluster, c *proofCase) {
			if len(c.d.pBy) > 0 {
				c.d.pBy, c.d.pModes = append([]primitives.MemberId{c.d.pBy[0]}, c.d.pBy...), append([]string{""}, c.d.pModes...)
			}
		}},
		{"no_p_senders", func(cl *cluster, c *proofCase) { c.d.pBy, c.d.pModes = nil, nil }},
	}
	n := 0
	base := func(ws []uint64, rotate bool, tv, pv uint64, mask int) (*cluster, proofCase) {
		cl := newCluster(ws, nil, 1, rotate)
		leader := leaderAt(cl, h, pv)
		hash := hashOfBody("the-block")
		c := proofCase{weights: ws, rotate: rotate, h: h, tv: tv,
			d: proofD{present: true, pp: refD{ht: protocol.LEAN_HELIX_PREPREPARE, inst: clusterInstance, h: h, v: pv, hash: hash}, ppBy: leader,
				p: refD{ht: protocol.LEAN_HELIX_PREPARE, inst: clusterInstance, h: h, v: pv, hash: hash}}}
		k := 0
		for i := 0; i < cl.nMembers; i++ {
			if cl.ids[i].Equal(leader) {
				continue
			}
			if mask&(1<<uint(k)) != 0 {
				c.d.pBy, c.d.pModes = append(c.d.pBy, cl.ids[i]), append(c.d.pModes, "")
			}
			k++
		}
		return cl, c
	}
	for gi, ws := range grids {
		rotate := gi%2 == 1
		for _, tvpv := range [][2]uint64{{1, 0}, {2, 1}, {5, 3}, {9, 0}} {
			tv, pv := tvpv[0], tvpv[1]
			others := len(ws) - 1
			// every subset of PREPARE senders, all signatures genuine: the quorum boundary
			for mask := 0; mask < 1<<uint(others); mask++ {
				if others > 5 && mask%7 != 0 && mask != 1<<uint(others)-1 {
					continue
				}
				cl, c := base(ws, rotate, tv, pv, mask)
				cl.close()
				c.dev = fmt.Sprintf("subset_%d", mask)
				runProofCase(out, c)
				n++
			}
			// one deviation at a time from the proof signed by everybody
			for _, d := range devs {
				cl, c := base(ws, rotate, tv, pv, 1<<uint(others)-1)
				d.f(cl, &c)
				cl.close()
				c.dev = d.name
				runProofCase(out, c)
				n++
			}
		}
	}
	for i := 0; i < *nRand; i++ {
		ws := grids[rnd.Intn(len(grids))]
		tv := uint64(1 + rnd.Intn(6))
		pv := uint64(rnd.Intn(int(tv)))
		cl, c := base(ws, rnd.Intn(2) == 0, tv, pv, rnd.Intn(1<<uint(len(ws)-1)))
		name := ""
		for k := 0; k < 1+rnd.Intn(2); k++ {
			d := devs[rnd.Intn(len(devs))]
			d.f(cl, &c)
			name += d.name + "+"
		}
		cl.close()
		c.dev = name
		runProofCase(out, c)
		n++
	}
	fmt.Printf("lines=%d\n", out.n)
	return 0
}

func leaderAt(cl *cluster, h, v uint64) primitives.MemberId {
	com := cl.committeeAt(h)
	return com[int(v%uint64(len(com)))].Id
}
