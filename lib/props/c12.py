"""C12 no bytes crash, wedge or disable a node.  Cluster part: garbage / truncated / bit-flipped content and
structurally valid messages with extreme field values are injected at every point of random adversarial runs
of real nodes; TLC checks (Trace_Cluster) that no step panics and that unparseable bytes change nothing, and the
rest of the run keeps conforming and committing.  Runtime part (main loop wedge, API entry points) is in
props/runtime.py."""
from props import cluster

PID = "C12"


def _entry_points(rep, tier, seed):
    """ValidateBlockConsensus / GetMemberIdsFromBlockProof on systematically built and malformed proofs: no panic."""
    import json
    from props import tables

    def classify(line, tags):
        return {"tags": tags, "mangle": line["case"]["mangle"]}, "block-proof entry point panicked on case %s" % json.dumps(line["case"])

    n = 800 if tier == "quick" else 20000
    # the trace spec tags a panic c02_panic; under C12 it is the same observation read as "never panic out to the caller"
    lines, bad = tables.run_table(rep, PID, "blockproof", ["-seed", seed, "-rand", n, "-mangle", 2 * n], "Trace_BlockProof", "Trace_BlockProof.cfg",
                                  classify, sample_keys=["result", "ids"], distinct_key=lambda e: e["case"], tag_filter=lambda t: t == "c02_panic")


def _extra(rep, tier, seed):
    _entry_points(rep, tier, seed)
    try:
        from props import runtime
    except ImportError:
        return
    if hasattr(runtime, "c12"):
        runtime.c12(rep, tier, seed)


def run(tier, seed):
    return cluster.simple_check(PID, tier, seed, extra=_extra)


def replay(path, seed):
    import json
    payload = json.load(open(path))
    if payload.get("kind") == "cluster-run":
        return cluster.simple_replay(PID, path, seed)
    from props import runtime
    return runtime.simple_replay(PID, path, seed)
