package main

// C09 (the deciding function of "the highest prepared block is re-proposed"): GetLatestBlockFromViewChangeMessages on lists of
// VIEW_CHANGE votes in EVERY order (the term reads them from a map: any order occurs) - some with a prepared proof and its block,
// some with a proof but no block, some without either.  One line per call; Trace_Extractor.tla recomputes the answer.

import (
	"flag"
	"fmt"

	"github.com/orbs-network/lean-helix-go/services/blockextractor"
	"github.com/orbs-network/lean-helix-go/services/interfaces"
	"github.com/orbs-network/lean-helix-go/spec/types/go/protocol"
)

func init() { register("extractor", cmdExtractor) }

type exVote struct {
	pv  int    // view of the prepared proof (-1: no proof)
	blk string // attached block ("-": none)
}

func runExtract(out *ndjson, cl *cluster, adv *adversary, votes []exVote) {
	var msgs []*interfaces.ViewChangeMessage
	vs := []obj{}
	for i, v := range votes {
		d := voteD{ht: protocol.LEAN_HELIX_VIEW_CHANGE, inst: clusterInstance, h: 3, v: 20, sender: cl.ids[i%cl.nMembers]}
		body := v.blk
		if body == "-" {
			body = "hidden"
		}
		if v.pv >= 0 {
			hash := hashOfBody(body)
			d.proof = proofD{present: true, pp: refD{ht: protocol.LEAN_HELIX_PREPREPARE, inst: clusterInstance, h: 3, v: uint64(v.pv), hash: hash}, ppBy: cl.ids[v.pv%cl.nMembers],
				p: refD{ht: protocol.LEAN_HELIX_PREPARE, inst: clusterInstance, h: 3, v: uint64(v.pv), hash: hash}}
			for j := 0; j < cl.nMembers; j++ {
				if j != v.pv%cl.nMembers {
					d.proof.pBy = append(d.proof.pBy, cl.ids[j])
				}
			}
		}
		var blk interfaces.Block
		if v.blk != "-" && v.pv >= 0 {
			blk = &vBlock{height: 3, body: v.blk}
		}
		m, _ := interfaces.ToConsensusMessage(adv.mkVC(d, blk)).(*interfaces.ViewChangeMessage)
		if m == nil {
			continue
		}
		msgs = append(msgs, m)
		x := "-"
		if blk != nil {
			x = v.blk
		}
		vs = append(vs, obj{"pv": v.pv, "x": x})
	}
	res, hashOK, panicked := "-", true, false
	func() {
		defer func() {
			if r := recover(); r != nil {
				panicked = true
			}
		}()
		b, h := blockextractor.GetLatestBlockFromViewChangeMessages(msgs)
		if b != nil {
			res = blockName(b)
			hashOK = string(h) == string(hashOfBody(res))
		} else {
			hashOK = len(h) == 0
		}
	}()
	out.emit(obj{"op": "extract", "votes": vs, "res": res, "hash_ok": hashOK, "panic": panicked})
}

func cmdExtractor(args []string) int {
	fs := flag.NewFlagSet("extractor", flag.ExitOnError)
	outPath := fs.String("out", "extractor.ndjson", "")
	seed := fs.Int64("seed", 1, "")
	nRand := fs.Int("rand", 2000, "")
	replay := fs.String("replay", "", "")
	fs.Parse(args)
	out := newNdjson(*outPath)
	defer out.close()
	cl := newCluster([]uint64{1, 1, 1, 1, 1, 1, 1}, nil, 1, false)
	defer cl.close()
	for i := 0; i < cl.nMembers; i++ {
		cl.byz[i] = true
	}
	adv := newAdversary(cl)
	if *replay != "" {
		for _, e := range readNdjson(*replay) {
			var votes []exVote
			for _, v := range e["votes"].([]interface{}) {
				m := v.(map[string]interface{})
				votes = append(votes, exVote{pv: intOr(m["pv"]), blk: strOr(m["x"])})
			}
			runExtract(out, cl, adv, votes)
		}
		fmt.Printf("lines=%d\n", out.n)
		return 0
	}
	// systematic: every ORDER of up to four votes whose proofs have distinct views, each view with its own block, then with one
	// block shared by two views (the honest case: a re-proposed block), with and without lock-free votes in between
	var perm func(rest []exVote, acc []exVote)
	perm = func(rest []exVote, acc []exVote) {
		if len(rest) == 0 {
			runExtract(out, cl, adv, acc)
			return
		}
		for i := range rest {
			r2 := append(append([]exVote{}, rest[:i]...), rest[i+1:]...)
			perm(r2, append(append([]exVote{}, acc...), rest[i]))
		}
	}
	runExtract(out, cl, adv, nil)
	for _, set := range [][]exVote{
		{{-1, "-"}}, {{2, "A"}}, {{2, "-"}}, {{-1, "-"}, {-1, "-"}, {-1, "-"}},
		{{0, "A"}, {1, "B"}}, {{0, "A"}, {5, "A"}}, {{0, "A"}, {-1, "-"}}, {{3, "-"}, {1, "B"}},
		{{8, "A"}, {3, "B"}, {4, "C"}}, {{0, "A"}, {1, "B"}, {2, "A"}}, {{0, "A"}, {1, "B"}, {-1, "-"}}, {{7, "-"}, {1, "B"}, {2, "C"}},
		{{0, "A"}, {1, "B"}, {2, "C"}, {3, "D"}}, {{1, "A"}, {4, "B"}, {6, "A"}, {9, "B"}}, {{0, "A"}, {2, "B"}, {-1, "-"}, {5, "C"}},
		{{0, "A"}, {3, "B"}, {9, "-"}, {5, "C"}}, {{2, "A"}, {2, "A"}, {1, "B"}, {0, "C"}},
		{{0, "A"}, {1, "B"}, {2, "C"}, {3, "D"}, {4, "E"}}, {{9, "A"}, {1, "B"}, {-1, "-"}, {3, "D"}, {4, "-"}},
	} {
		perm(set, nil)
	}
	rnd := newRand(*seed)
	bodies := []string{"A", "B", "C", "D"}
	for i := 0; i < *nRand; i++ {
		k := 1 + rnd.Intn(7)
		var votes []exVote
		for j := 0; j < k; j++ {
			switch rnd.Intn(5) {
			case 0:
				votes = append(votes, exVote{-1, "-"})
			case 1:
				votes = append(votes, exVote{rnd.Intn(12), "-"})
			default:
				pv := rnd.Intn(12)
				votes = append(votes, exVote{pv, bodies[(pv+rnd.Intn(2))%4]})
			}
		}
		runExtract(out, cl, adv, votes)
	}
	fmt.Printf("lines=%d\n", out.n)
	return 0
}
