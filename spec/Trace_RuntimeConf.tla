-------------------------- MODULE Trace_RuntimeConf --------------------------
(* Conformance of the REAL two-goroutine runtime (MainLoop.Run + WorkerLoop.Run, real state and    *)
(* context registry) with the loop logic of Runtime.tla.                                            *)
(*                                                                                                   *)
(* The trace is the same event log that Trace_Runtime.tla monitors (one global sequence number,      *)
(* taken inside the critical section that logs the event).  Three kinds of lines bind it to the      *)
(* specification:                                                                                    *)
(*  - ctx.for / ctx.cancel / ctx.shutdown: every operation of the real context registry, reported    *)
(*    while the registry's mutex is held, i.e. in the order in which the operations took effect,     *)
(*    with the goroutine (main loop / worker loop / other) that made it.  They are replayed one by    *)
(*    one through the step functions of ViewContexts.tla (variable reg); the result of every For     *)
(*    must be the one ForR predicts.                                                                 *)
(*  - main.*: the main loop's cases.  Runtime.tla performs a case as ONE atomic action whose body    *)
(*    is a decision function of RuntimeLogic.tla; the real loop takes several steps (begin, registry *)
(*    operations, hand-over to the worker, end).  The decision is computed when the case begins; the *)
(*    outcome reported at its end and the registry operations the main goroutine made in between     *)
(*    must be exactly the decision's (the worker's interleaved For calls commute with them: they     *)
(*    change neither the watermark nor the shutdown flag).                                           *)
(*  - worker.*.taken / worker.idle: the worker loop's iterations.  What it takes from its two        *)
(*    single-slot channels must be something the specification's slots held since the worker was    *)
(*    last at the top of its loop (syncSlot / elecHist: the newest accepted value, overwritten,       *)
(*    emptied by the worker), syncs in increasing order, and what it does with it must               *)
(*    follow WorkerSyncAccepts / WorkerElectionCurrent; every blocking consumer call is made with    *)
(*    the context the worker requested last (EnterSpi of Runtime.tla), and a context the             *)
(*    specification's registry holds live is never observed cancelled.                               *)
EXTENDS Integers, Sequences, FiniteSets, TLC, Json, IOUtils, SequencesExt
Trace == ndJsonDeserialize(IOEnv.VERIF_TRACE)

\* (folds, not set comprehensions over the line numbers: thorough traces have millions of lines and TLC refuses sets above 10^6 elements)
IsCtx(e) == e.ev \in {"ctx.for", "ctx.cancel"}
Heights == TLCEval(FoldLeft(LAMBDA acc, e : IF IsCtx(e) THEN acc \cup {e.h} ELSE acc, {1}, Trace))
Views   == TLCEval(FoldLeft(LAMBDA acc, e : IF IsCtx(e) THEN acc \cup {e.v} ELSE acc, {0}, Trace))
RL == INSTANCE RuntimeLogic
VC == INSTANCE ViewContexts
Umb == 1000000009        \* the term-level ("umbrella") context of a height: view 2^64-1 as the harness abstracts it

VARIABLES l, reg, c
\* c: control state of the run
NoHV == <<0, 0>>
IdleM == [phase |-> "idle", arg |-> NoHV, dec |-> [res |-> "-", ops |-> <<>>], ops |-> <<>>, early |-> FALSE]
IdleW == [kind |-> "-", arg |-> NoHV, act |-> FALSE, fors |-> 0, firstOk |-> FALSE, rounds |-> <<>>, commitOk |-> FALSE]
\* syncHist / elecHist: what the slot has held since the worker was last seen at the top of its loop.  The worker's
\* receive from the channel cannot be logged atomically with it: between the receive and the "taken" event the main
\* loop may already have refilled the (then empty) slot, so "taken" may report any value of the history, not only
\* the slot's present content.
\* Election triggers for one position may repeat (the scheduler may fire the same pair twice), so elecHist is the SEQUENCE of
\* triggers handed over and not yet matched by a "taken" event (a set would conflate two equal triggers, one taken before the
\* second was handed over, the other after: first version of this check, false alarm).  At the top of the worker's loop only the
\* newest can still be in the single-slot channel.
Fresh == [maxSync |-> -1, syncSlot |-> -1, syncHist |-> {}, elecHist |-> <<>>, lastSync |-> -1,
          cancelled |-> FALSE, m |-> IdleM, w |-> IdleW, lastFor |-> [p |-> NoHV, res |-> "-"], oks |-> {}, wantH |-> 0]

Chk(cond, tag) == cond \/ PrintT(<<"VERIF_BAD", tag, l>>)
DropFirst(q, x) == IF x \notin ToSet(q) THEN q
                     ELSE LET i == CHOOSE i \in DOMAIN q : q[i] = x /\ \A j \in 1..(i - 1) : q[j] # x IN SubSeq(q, 1, i - 1) \o SubSeq(q, i + 1, Len(q))
Init == l = 1 /\ reg = VC!InitS /\ c = Fresh

P(e) == <<e.h, e.v>>
Dec(d) == [res |-> d.res, ops |-> d.ops]
Cur(e) == <<e.curh, e.curv>>      \* the node's (height, view) read by the worker goroutine (its only writer) when it took the input

-----------------------------------------------------------------------------
\* next registry state
RegStep(e) ==
  CASE e.ev = "init" -> VC!InitS
    [] e.ev = "ctx.for" -> VC!ForR(reg, P(e)).st
    [] e.ev = "ctx.cancel" -> VC!CancelR(reg, P(e)).st
    [] e.ev = "ctx.shutdown" -> VC!ShutdownR(reg).st
    [] OTHER -> reg

\* next control state
Outcome(e) == IF e.ev \in {"main.sync.stale"} THEN "stale"
              ELSE IF e.ev \in {"main.sync.ignored", "main.election.ignored"} THEN "ignored" ELSE "done"

CtlStep(e) ==
  CASE e.ev = "init" -> Fresh
    [] e.ev = "api.cancel" -> [c EXCEPT !.cancelled = TRUE]
    \* ---- main loop
    [] e.ev = "main.sync.begin" ->
         [c EXCEPT !.m = [phase |-> "sync", arg |-> <<e.h, 0>>, dec |-> Dec(RL!SyncDecision(c.maxSync, reg, e.h)), ops |-> <<>>, early |-> FALSE]]
    [] e.ev = "main.election.begin" ->
         [c EXCEPT !.m = [phase |-> "election", arg |-> P(e), dec |-> Dec(RL!ElectionDecision(reg, P(e))), ops |-> <<>>, early |-> FALSE]]
    [] e.ev \in {"main.sync.stale", "main.sync.ignored"} -> [c EXCEPT !.m = IdleM]
    [] e.ev = "main.sync.done" ->
         [c EXCEPT !.m = IdleM, !.maxSync = e.h, !.syncSlot = IF c.m.early THEN c.syncSlot ELSE e.h,
                   !.syncHist = IF c.m.early THEN @ ELSE @ \cup {e.h}]
    [] e.ev = "main.election.ignored" -> [c EXCEPT !.m = IdleM]
    [] e.ev = "main.election.done" ->
         [c EXCEPT !.m = IdleM, !.elecHist = IF c.m.early THEN @ ELSE Append(@, P(e))]
    [] e.ev \in {"ctx.for", "ctx.cancel"} /\ e.g = "main" /\ c.m.phase # "idle" ->
         [c EXCEPT !.m.ops = Append(@, <<IF e.ev = "ctx.for" THEN "for" ELSE "cancel", e.h, e.v>>)]
    \* ---- worker loop
    [] e.ev = "worker.sync.taken" ->
         \* the hand-over to the worker precedes the main loop's "done" event: the worker may log first
         LET early == e.h \notin c.syncHist /\ c.m.phase = "sync" /\ c.m.arg[1] = e.h /\ c.m.dec.res = "done" IN
         [c EXCEPT !.syncSlot = IF @ = e.h \/ early THEN -1 ELSE @, !.syncHist = @ \ {e.h}, !.lastSync = e.h, !.m.early = early,
                   !.w = [IdleW EXCEPT !.kind = "sync", !.arg = <<e.h, 0>>, !.act = RL!WorkerSyncAccepts(e.h, Cur(e))]]
    [] e.ev = "worker.election.taken" ->
         LET early == P(e) \notin ToSet(c.elecHist) /\ c.m.phase = "election" /\ c.m.arg = P(e) /\ c.m.dec.res = "done" IN
         [c EXCEPT !.elecHist = DropFirst(@, P(e)), !.m.early = early,
                   !.w = [IdleW EXCEPT !.kind = "election", !.arg = P(e), !.act = RL!WorkerElectionCurrent(P(e), Cur(e))]]
    [] e.ev = "worker.msg.taken" -> [c EXCEPT !.w = [IdleW EXCEPT !.kind = "msg", !.act = TRUE]]
    [] e.ev = "worker.idle" -> [c EXCEPT !.w = IdleW, !.syncHist = {c.syncSlot} \ {-1},
                                       !.elecHist = IF c.elecHist = <<>> THEN <<>> ELSE <<Last(c.elecHist)>>]
    [] e.ev = "ctx.for" /\ e.g = "worker" ->
         [c EXCEPT !.lastFor = [p |-> P(e), res |-> e.res], !.oks = IF e.res = "ok" THEN @ \cup {P(e)} ELSE @, !.w.fors = @ + 1, !.w.firstOk = IF c.w.fors = 0 THEN e.res = "ok" ELSE @,
                   !.wantH = IF e.res = "ok" /\ e.v = 0 /\ e.h > @ THEN e.h ELSE @]
    [] e.ev = "cb.round" -> [c EXCEPT !.w.rounds = Append(@, e.h), !.w.commitOk = FALSE]
    [] e.ev = "cb.commit" -> [c EXCEPT !.w.commitOk = TRUE]
    [] e.ev = "cb.commit.failed" -> [c EXCEPT !.w.commitOk = FALSE]
    [] OTHER -> c

-----------------------------------------------------------------------------
SpiPos(e) == IF e.kind \in {"committee", "commit"} THEN <<e.h, Umb>> ELSE <<e.h, -1>>   \* -1: any view of that height
Matches(p, q) == p[1] = q[1] /\ (q[2] = -1 \/ p[2] = q[2])
LiveInSpec(p) == p \in VC!P /\ reg.status[p] = "live"

Judge(e) ==
  \* ---- the registry: every For answers what ForR predicts; what is live is never for a superseded position
  /\ Chk(e.ev = "ctx.for" => VC!ForR(reg, P(e)).res = e.res, "c15_conf_for_result_differs_from_registry_spec")
  /\ Chk(e.ev \in {"ctx.for", "ctx.cancel", "ctx.shutdown"} => VC!LiveOK(RegStep(e)), "c15_conf_live_context_for_superseded_position")
  \* ---- who may do what: only the main loop cancels; it shuts the registry down only once Run's context is cancelled
  /\ Chk(e.ev = "ctx.cancel" => e.g = "main", "c15_conf_cancel_by_other_than_main_loop")
  /\ Chk(e.ev = "ctx.shutdown" => (e.g = "main" /\ c.cancelled), "c16_conf_registry_shut_down_while_running")
  \* GC at the top of a main-loop iteration: everything below the current height (read concurrently with the worker)
  /\ Chk((e.ev = "ctx.cancel" /\ e.g = "main" /\ c.m.phase = "idle") => (e.v = 0 /\ e.h <= c.wantH), "c15_conf_gc_beyond_current_height")
  \* ---- main loop cases against the decision functions of RuntimeLogic
  /\ Chk((e.ev \in {"main.sync.stale", "main.sync.ignored", "main.sync.done"}) =>
           (c.m.phase = "sync" /\ c.m.arg[1] = e.h /\ c.m.dec.res = Outcome(e)), "c14_conf_sync_outcome_differs_from_spec")
  /\ Chk((e.ev \in {"main.election.ignored", "main.election.done"}) =>
           (c.m.phase = "election" /\ c.m.arg = P(e) /\ c.m.dec.res = Outcome(e)), "c15_conf_election_outcome_differs_from_spec")
  /\ Chk((e.ev \in {"main.sync.stale", "main.sync.ignored", "main.sync.done", "main.election.ignored", "main.election.done"}) =>
           c.m.ops = c.m.dec.ops, "c15_conf_main_loop_registry_operations_differ_from_spec")
  \* ---- worker inputs: the slots hold the newest accepted value
  /\ Chk(e.ev = "worker.sync.taken" =>
           (e.h \in c.syncHist \/ (c.m.phase = "sync" /\ c.m.arg[1] = e.h /\ c.m.dec.res = "done")), "c14_conf_worker_took_a_sync_the_slot_never_held")
  /\ Chk(e.ev = "worker.sync.taken" => e.h > c.lastSync, "c14_conf_syncs_taken_out_of_order")
  /\ Chk(e.ev = "worker.election.taken" =>
           (P(e) \in ToSet(c.elecHist) \/ (c.m.phase = "election" /\ c.m.arg = P(e) /\ c.m.dec.res = "done")), "c15_conf_worker_took_an_election_the_slot_never_held")
  \* C19: the main loop reacts to a trigger with the trigger's OWN (height, view) - cancel everything older than (h, v+1), request
  \* (h, v+1) - so that a trigger of a pair that is over touches nothing of the current position
  /\ Chk((e.ev \in {"main.election.ignored", "main.election.done"}) => (c.m.phase = "election" /\ c.m.arg = P(e) /\ c.m.ops = c.m.dec.ops /\ c.m.dec.res = Outcome(e)),
         "c19_conf_election_trigger_handled_at_another_position")
  \* C19: a trigger that reaches the worker is the newest one the main loop handed over since the worker was last at the top of
  \* its loop - an older pair still waiting in the slot is superseded and must be gone (the same condition, as C19 words it)
  /\ Chk(e.ev = "worker.election.taken" =>
           (P(e) \in ToSet(c.elecHist) \/ (c.m.phase = "election" /\ c.m.arg = P(e) /\ c.m.dec.res = "done")), "c19_conf_trigger_taken_is_not_the_newest_handed_over")
  \* C17: the height the filter classifies messages by (the node's height, read by the worker when it takes an input) is the
  \* height of the installed term - the last round the worker started after the registry handed out its context
  /\ Chk(e.ev \in {"worker.msg.taken", "worker.election.taken", "worker.sync.taken"} => Cur(e)[1] = c.wantH,
         "c17_conf_height_moved_without_a_round_of_that_height")
  \* ---- worker iterations
  \* a sync below the current height and an election for another position have no effect at all
  /\ Chk((e.ev \in {"ctx.for", "spi.enter", "timer.armed", "cb.round", "cb.commit", "send"} /\ (e.ev = "ctx.for" => e.g = "worker")
           /\ c.w.kind \in {"sync", "election"}) => c.w.act, "c14_conf_ignored_input_had_an_effect")
  \* an accepted sync of block b requests the context of (b+1, 0) first, and reports round b+1, never as first leader
  /\ Chk((e.ev = "ctx.for" /\ e.g = "worker" /\ c.w.kind = "sync" /\ c.w.fors = 0) => P(e) = RL!SyncTarget(c.w.arg[1]), "c14_conf_sync_round_started_at_other_position")
  /\ Chk((e.ev = "cb.round" /\ c.w.kind = "sync" /\ c.w.rounds = <<>>) => (e.h = c.w.arg[1] + 1 /\ ~e.first), "c14_conf_round_after_sync")
  /\ Chk((e.ev = "cb.round" /\ e.first) => c.w.commitOk, "c14_conf_first_leader_without_own_commit")
  /\ Chk((e.ev = "worker.idle" /\ c.w.kind = "sync" /\ c.w.act /\ c.w.firstOk /\ ~c.cancelled) => c.w.rounds # <<>>, "c14_conf_accepted_sync_started_no_round")
  \* an election for the current position moves to the next view of the same height (when the node takes part in the term)
  /\ Chk((e.ev = "timer.armed" /\ c.w.kind = "election") => P(e) = RL!ElectionTarget(c.w.arg), "c15_conf_election_moved_to_other_position")
  \* ---- consumer calls use the context requested last, and it was handed out
  \* (c.oks: the positions for which the registry has handed the worker a context in this run.  First version: "the context requested
  \* LAST, and that request succeeded" - but a round start requests (h, 0), then the term requests (h, umbrella) for its committee call,
  \* and a sync handled by the main loop between the two makes the second request fail; the round callback is then made, rightly, with
  \* the (h, 0) context it holds - already cancelled.  Thorough tier, seed 1, run 324: false alarm.)
  /\ Chk(e.ev = "spi.enter" => \E p \in c.oks : Matches(p, SpiPos(e)), "c15_conf_consumer_call_without_its_context")
  \* a proposal is requested with the context of the view the node is in (requested immediately before the call; the driver reads
  \* the node's view on the worker goroutine, its only writer): with the context of the view it has just left, a late election
  \* trigger of that view would cancel the proposal of the current one
  /\ Chk((e.ev = "spi.enter" /\ e.kind = "propose") => (c.lastFor.res = "ok" /\ c.lastFor.p = <<e.h, e.v>>),
         "c15_conf_proposal_requested_with_the_context_of_another_view")
  \* a context the specification holds live has not been cancelled (cancellations are logged before they are performed)
  /\ Chk((e.ev \in {"spi.enter", "spi.leave"} /\ e.dead) => \E p \in c.oks : Matches(p, SpiPos(e)) /\ ~LiveInSpec(p), "c15_conf_live_context_observed_cancelled")

Next == /\ l <= Len(Trace) /\ l' = l + 1
        /\ LET e == Trace[l] IN reg' = RegStep(e) /\ c' = CtlStep(e) /\ Judge(e)   \* assignments first
=============================================================================
