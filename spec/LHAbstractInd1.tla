--------------------------- MODULE LHAbstractInd1 ---------------------------
(* LHAbstract.tla for Apalache: the lemmas as an INDUCTIVE invariant (any number of steps), for N = 4 members of weight 1,   *)
(* member 1 Byzantine, views 0..1 (LHAbstractInd1) and 0..2 (LHAbstractInd), two blocks.                                                                              *)
(*   apalache-mc check --init=Init    --inv=IndInv --length=0      (the initial state satisfies it)                         *)
(*   apalache-mc check --init=IndInit --inv=IndInv --length=1      (every step from ANY state satisfying it preserves it)   *)
(*   apalache-mc check --init=IndInit --inv=Agreement --length=0   (it implies agreement)                                   *)
EXTENDS Integers, FiniteSets
VARIABLES
  \* @type: Int -> Int;
  view,
  \* @type: Int -> (Int -> Int);
  acc,
  \* @type: Int -> (Int -> Bool);
  prep,
  \* @type: Int -> Int;
  dec,
  \* @type: Int -> (Int -> Bool);
  voted,
  \* @type: Int -> (Int -> Int);
  vpv,
  \* @type: Int -> (Int -> Int);
  vpb,
  \* @type: Int -> Int;
  prop
\* @type: Set(Str);
NoDev == {}
INSTANCE LHAbstract WITH N <- 4, MaxView <- 1, NBlocks <- 2, Byz <- {1}, Dev <- NoDev, W <- [i \in 0..6 |-> 1]

\* any state satisfying the invariant (TypeOK bounds every variable)
IndInit ==
  /\ view \in [Corr -> Views] /\ acc \in [Corr -> [Views -> 0..2]] /\ prep \in [Corr -> [Views -> BOOLEAN]]
  /\ dec \in [Corr -> 0..2] /\ prop \in [Views -> 0..2]
  /\ voted \in [Corr -> [Views -> BOOLEAN]] /\ vpv \in [Corr -> [Views -> -1..1]] /\ vpb \in [Corr -> [Views -> 0..2]]
  /\ IndInv
=============================================================================
