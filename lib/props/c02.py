"""C02 ValidateBlockConsensus soundness.  BlockProof.tla states what an acceptable (block, proof) pair is;
the harness builds real proof bytes for every subset of signers of several weighted committees, with every
field deviated one at a time and in random combinations (signer status: other type / view / hash / instance
/ height / forged; duplicate and outsider signers; header type, instance, height, hash; seed signature ok /
for another previous proof / absent / forged; block matching / other hash / other height / nil; both modes)
plus malformed encodings (every kind of truncation, bit flips, random bytes, empty), calls the real
ValidateBlockConsensus and GetMemberIdsFromBlockProof, and TLC checks accepted => ValidBlockProof on the
harness's own parse (ground-truth signatures) of the very bytes handed in, and that nothing panics."""
import json, os, shutil
import vlib
from props import tables

PID = "C02"


def _classify(line, tags):
    c = line["case"]
    sig = {"tags": tags, "mangle": c["mangle"], "mode": line["mode"]}
    return sig, "ValidateBlockConsensus(%s) returned %s for case %s: %s" % (line["mode"], line["result"], json.dumps(c), ",".join(tags))


def _table(rep, tier, seed, replay_in=None):
    n = 1500 if tier == "quick" else 40000
    lines, bad = tables.run_table(rep, PID, "blockproof", ["-seed", seed, "-rand", n, "-mangle", n], "Trace_BlockProof", "Trace_BlockProof.cfg",
                                  _classify, replay_in=replay_in, sample_keys=["case", "result", "mode"],
                                  distinct_key=lambda e: e["case"])
    rep.extra["accepted"] = sum(1 for e in lines if e["result"] == "ok")
    rep.extra["rejected"] = sum(1 for e in lines if e["result"] == "err")
    drift = [l for l in bad if all(t.startswith("drift_") for t in bad[l])]
    rep.extra["valid_but_rejected"] = len(drift)


def run(tier, seed):
    rep = vlib.Report(PID, tier, seed)
    rep.assumptions = ["signatures / seed signature judged by the harness keyring on the bytes actually passed in",
                       "the converse (valid => accepted) is reported as drift only; the property is one-directional"]
    _table(rep, tier, seed)
    return rep.finish()


def replay(path, seed):
    rep = vlib.Report(PID, "quick", seed)
    rep.replay_of = path
    wd = vlib.scratch_dir("c02r")
    try:
        payload = json.load(open(path))
        _table(rep, "quick", seed, replay_in=tables.replay_line(payload, wd))
        if not rep.violations:
            # the line alone passes: the finding may depend on calls made before it (state kept across calls) - the whole
            # table of the seed that found it is run again
            _table(rep, "quick", payload.get("seed", seed))
    finally:
        shutil.rmtree(wd, ignore_errors=True)
    return rep.finish()
