package main

// Adversary templates: what a Byzantine member / outsider sends.  Each template returns real bytes
// built under the crafting rules of craft.go, and a template name that goes into the trace.

import (
	"fmt"
	"math"

	"github.com/orbs-network/lean-helix-go/services/interfaces"
	"github.com/orbs-network/lean-helix-go/spec/types/go/primitives"
	"github.com/orbs-network/lean-helix-go/spec/types/go/protocol"
)

func (a *adversary) byzIds() []primitives.MemberId {
	var out []primitives.MemberId
	for i := 0; i < a.cl.nMembers; i++ {
		if a.cl.byz[i] {
			out = append(out, a.cl.ids[i])
		}
	}
	return out
}

func (a *adversary) outsider() primitives.MemberId { return a.cl.ids[a.cl.nMembers] }

func (a *adversary) leaderOf(h, v uint64) primitives.MemberId {
	com := a.cl.committeeAt(h)
	return com[int(v%uint64(len(com)))].Id
}

// someSigner: a Byzantine member if there is one, else the outsider (still a valid key).
func (a *adversary) someSigner(r *run) primitives.MemberId {
	b := a.byzIds()
	if len(b) == 0 || r.rnd.Intn(6) == 0 {
		return a.outsider()
	}
	return b[r.rnd.Intn(len(b))]
}

func (a *adversary) newBody(r *run, h uint64, bad bool) *vBlock {
	a.forged++
	prefix := "z"
	if bad {
		prefix = "X"
	}
	body := fmt.Sprintf("%s%d.%d", prefix, h, a.forged)
	a.cl.addBody(body)
	return &vBlock{height: h, body: body}
}

// knownBlock: a block some honest node proposed at this height (if any), else a new one
func (a *adversary) knownBlock(r *run, h uint64) *vBlock {
	var cands []*vBlock
	for _, pp := range a.ppSeen {
		if vb, ok := pp.Block().(*vBlock); ok && vb != nil && vb.height == h {
			cands = append(cands, vb)
		}
	}
	if len(cands) > 0 && r.rnd.Intn(4) != 0 {
		return cands[r.rnd.Intn(len(cands))]
	}
	return a.newBody(r, h, r.rnd.Intn(6) == 0)
}

func ref(ht protocol.MessageType, h, v uint64, b *vBlock) refD {
	return refD{ht: ht, inst: clusterInstance, h: h, v: v, hash: hashOfBody(b.body)}
}

// bestProof assembles the most convincing prepared proof available for (h, view < target): leader
// signature from a captured/Byzantine PREPREPARE and PREPARE signatures from captured/Byzantine members.
func (a *adversary) proofFor(r *run, h, target uint64, variant string) (proofD, *vBlock) {
	if target == 0 {
		return proofD{}, nil
	}
	pv := uint64(r.rnd.Intn(int(minU64(target, 4))))
	b := a.knownBlock(r, h)
	leader := a.leaderOf(h, pv)
	p := proofD{present: true, pp: ref(protocol.LEAN_HELIX_PREPREPARE, h, pv, b), ppBy: leader, p: ref(protocol.LEAN_HELIX_PREPARE, h, pv, b)}
	for i := 0; i < a.cl.nMembers; i++ {
		id := a.cl.ids[i]
		if id.Equal(leader) {
			continue
		}
		p.pBy = append(p.pBy, id)
		p.pModes = append(p.pModes, "")
	}
	switch variant {
	case "outsider":
		p.pBy = append(p.pBy, a.outsider())
	case "dup":
		if len(p.pBy) > 0 {
			p.pBy = append(p.pBy, p.pBy[0])
		}
	case "future":
		p.pp.v, p.p.v = target, target
	case "leaderprep":
		p.pBy = append(p.pBy, leader)
	case "few":
		if len(p.pBy) > 1 {
			p.pBy = p.pBy[:1]
		}
	case "hashmix":
		p.p.hash = hashOfBody(a.newBody(r, h, false).body)
	case "otherinst":
		p.pp.inst, p.p.inst = clusterInstance+1, clusterInstance+1
	case "split": // the leader signs a proposal reference for another block than the one the PREPAREs are for
		p.pp.hash = hashOfBody(a.newBody(r, h, false).body)
	case "mixview": // PREPREPARE reference of a later view over the same block, PREPAREs of the earlier view
		if pv+1 < target {
			p.pp.v = pv + 1
			p.ppBy = a.leaderOf(h, pv+1)
		}
	case "retyped": // COMMIT-typed signatures offered as PREPAREs
		p.p.ht = protocol.LEAN_HELIX_COMMIT
		p.pp.ht = protocol.LEAN_HELIX_COMMIT
	}
	return p, b
}

var proofVariants = []string{"", "", "", "split", "split", "mixview", "outsider", "dup", "future", "leaderprep", "few", "hashmix", "otherinst", "retyped"}

// craftFor builds one Byzantine message aimed at node n in its current state.
func (a *adversary) craftFor(r *run, n *cnode) (*interfaces.ConsensusRawMessage, string) {
	a.target = n.id
	h := uint64(n.st.Height())
	view := uint64(n.st.View())
	if h == 0 {
		return nil, ""
	}
	v := view
	switch r.rnd.Intn(6) {
	case 0:
		v = view + 1
	case 1:
		if view > 0 {
			v = view - 1
		}
	case 2:
		v = uint64(r.rnd.Intn(4))
	}
	me := a.someSigner(r)
	leader := a.leaderOf(h, v)
	switch r.rnd.Intn(18) {
	case 17: // structurally valid messages with degenerate field values: empty ids, empty vote sets, empty proofs
		b := a.knownBlock(r, h)
		empty := primitives.MemberId{}
		one := primitives.MemberId{0x01}
		switch r.rnd.Intn(7) {
		case 0:
			return a.mkP(ref(protocol.LEAN_HELIX_PREPARE, h, v, b), empty, "forged"), "p_empty_sender"
		case 1:
			return a.mkC(ref(protocol.LEAN_HELIX_COMMIT, h, v, b), one, "forged", "forged"), "c_one_byte_sender"
		case 2:
			return a.mkPP(ref(protocol.LEAN_HELIX_PREPREPARE, h, v, b), empty, "empty", b), "pp_empty_sender_empty_sig"
		case 3:
			tv := v
			if tv == 0 {
				tv = 1
			}
			d := nvD{inst: clusterInstance, h: h, v: tv, sender: a.leaderOf(h, tv), votes: nil, pp: ref(protocol.LEAN_HELIX_PREPREPARE, h, tv, b), ppBy: a.leaderOf(h, tv)}
			return a.mkNV(d, b), "nv_no_votes"
		case 4:
			tv := v
			if tv == 0 {
				tv = 1
			}
			pr := proofD{present: true, pp: ref(protocol.LEAN_HELIX_PREPREPARE, h, 0, b), ppBy: a.leaderOf(h, 0), p: ref(protocol.LEAN_HELIX_PREPARE, h, 0, b)}
			return a.mkVC(voteD{ht: protocol.LEAN_HELIX_VIEW_CHANGE, inst: clusterInstance, h: h, v: tv, sender: me, proof: pr}, b), "vc_proof_without_prepare_senders"
		case 5:
			rf := ref(protocol.LEAN_HELIX_PREPARE, h, v, b)
			rf.hash = primitives.BlockHash{}
			return a.mkP(rf, me, ""), "p_empty_hash"
		default:
			rf := ref(protocol.LEAN_HELIX_COMMIT, h, v, b)
			rf.hash = primitives.BlockHash{}
			return a.mkC(rf, me, "", ""), "c_empty_hash"
		}
	case 16: // non-canonical encodings: trailing bytes inside the signed header, signed as sent
		b := a.knownBlock(r, h)
		switch r.rnd.Intn(3) {
		case 0:
			return a.mkPaddedP(ref(protocol.LEAN_HELIX_PREPARE, h, v, b), me), "p_noncanonical"
		case 1:
			return a.mkPaddedC(ref(protocol.LEAN_HELIX_COMMIT, h, v, b), me), "c_noncanonical"
		default:
			tv := v
			if tv == 0 {
				tv = 1
			}
			return a.mkPaddedVC(voteD{ht: protocol.LEAN_HELIX_VIEW_CHANGE, inst: clusterInstance, h: h, v: tv, sender: me}, nil), "vc_noncanonical"
		}
	case 0: // proposal by whoever leads view v (real if Byzantine leads, else forged/replayed)
		b := a.knownBlock(r, h)
		name := "pp_leader"
		if v > 0 {
			name = "pp_standalone_highview"
		}
		return a.mkPP(ref(protocol.LEAN_HELIX_PREPREPARE, h, v, b), leader, "", b), name
	case 1: // equivocation: a second block for the same view by a Byzantine leader
		b := a.newBody(r, h, r.rnd.Intn(5) == 0)
		return a.mkPP(ref(protocol.LEAN_HELIX_PREPREPARE, h, v, b), leader, "", b), "pp_equivocate"
	case 2: // proposal whose block does not match the signed hash / no block
		b := a.knownBlock(r, h)
		var blk interfaces.Block = a.newBody(r, h, false)
		if r.rnd.Intn(2) == 0 {
			blk = nil
		}
		if r.rnd.Intn(3) == 0 { // the signed hash, but the block says it is of another height
			return a.mkPP(ref(protocol.LEAN_HELIX_PREPREPARE, h, v, b), leader, "", &vBlock{height: h + 1, body: b.body}), "pp_block_of_other_height"
		}
		return a.mkPP(ref(protocol.LEAN_HELIX_PREPREPARE, h, v, b), leader, "", blk), "pp_block_mismatch"
	case 3: // proposal signed by a non-leader
		b := a.knownBlock(r, h)
		return a.mkPP(ref(protocol.LEAN_HELIX_PREPREPARE, h, v, b), me, "", b), "pp_not_leader"
	case 4: // PREPARE by Byzantine member / outsider (valid key)
		b := a.knownBlock(r, h)
		return a.mkP(ref(protocol.LEAN_HELIX_PREPARE, h, v, b), me, ""), "p_byz_or_outsider"
	case 5: // COMMIT by Byzantine member / outsider (valid key, valid share)
		b := a.knownBlock(r, h)
		return a.mkC(ref(protocol.LEAN_HELIX_COMMIT, h, v, b), me, "", ""), "c_byz_or_outsider"
	case 6: // wrong type tag inside the container
		b := a.knownBlock(r, h)
		if r.rnd.Intn(2) == 0 {
			return a.mkC(ref(protocol.LEAN_HELIX_PREPARE, h, v, b), me, "", ""), "c_with_prepare_header"
		}
		return a.mkP(ref(protocol.LEAN_HELIX_COMMIT, h, v, b), me, ""), "p_with_commit_header"
	case 7: // forged / replayed honest identity on PREPARE or COMMIT
		b := a.knownBlock(r, h)
		victim := a.cl.ids[r.rnd.Intn(a.cl.nMembers)]
		if r.rnd.Intn(2) == 0 {
			return a.mkP(ref(protocol.LEAN_HELIX_PREPARE, h, v, b), victim, ""), "p_claimed_honest"
		}
		return a.mkC(ref(protocol.LEAN_HELIX_COMMIT, h, v, b), victim, "", ""), "c_claimed_honest"
	case 8: // COMMIT with a bad share
		b := a.knownBlock(r, h)
		if r.rnd.Intn(2) == 0 {
			return a.mkC(ref(protocol.LEAN_HELIX_COMMIT, h, v, b), me, "", "stolen"), "c_share_of_another_member"
		}
		return a.mkC(ref(protocol.LEAN_HELIX_COMMIT, h, v, b), me, "", "forged"), "c_bad_share"
	case 9, 10: // VIEW_CHANGE to the node (as if it led view v): with/without proof, good and bad proofs
		tv := v
		if tv == 0 {
			tv = 1
		}
		variant := proofVariants[r.rnd.Intn(len(proofVariants))]
		vd := voteD{ht: protocol.LEAN_HELIX_VIEW_CHANGE, inst: clusterInstance, h: h, v: tv, sender: me}
		var blk interfaces.Block
		name := "vc_no_proof"
		if r.rnd.Intn(3) != 0 {
			p, b := a.proofFor(r, h, tv, variant)
			vd.proof = p
			name = "vc_proof_" + variant
			switch r.rnd.Intn(4) {
			case 0:
				name += "_noblock"
			case 1:
				blk = a.newBody(r, h, false)
				name += "_wrongblock"
			default:
				if b != nil {
					blk = b
				}
			}
		}
		if r.rnd.Intn(8) == 0 {
			vd.mode = "forged"
			name += "_forgedsig"
		}
		return a.mkVC(vd, blk), name
	case 11, 12, 13: // NEW_VIEW by whoever leads view v (v > 0)
		tv := v
		if tv == 0 {
			tv = 1
		}
		return a.craftNV(r, h, tv)
	case 14: // extreme views / heights carried by well-formed messages
		b := a.knownBlock(r, h)
		ev := []uint64{1 << 31, 1 << 32, 1 << 63, 1<<63 + 1, math.MaxUint64 - 1, math.MaxUint64}[r.rnd.Intn(6)]
		switch r.rnd.Intn(4) {
		case 0:
			return a.mkP(ref(protocol.LEAN_HELIX_PREPARE, h, ev, b), me, ""), "p_extreme_view"
		case 1:
			return a.mkVC(voteD{ht: protocol.LEAN_HELIX_VIEW_CHANGE, inst: clusterInstance, h: h, v: ev, sender: me}, nil), "vc_extreme_view"
		case 2:
			return a.mkPP(ref(protocol.LEAN_HELIX_PREPREPARE, h, ev, b), me, "", b), "pp_extreme_view"
		default:
			return a.mkC(ref(protocol.LEAN_HELIX_COMMIT, ev, v, b), me, "", ""), "c_extreme_height"
		}
	default: // other instance / other height with valid signatures
		b := a.knownBlock(r, h)
		rf := ref(protocol.LEAN_HELIX_PREPARE, h, v, b)
		name := "p_other_instance"
		switch r.rnd.Intn(4) {
		case 0:
			rf.inst = clusterInstance + 1
		case 1:
			rf.h = h + 1
			name = "p_future_height"
		case 2: // a COMMIT of a committee member for the next height, signed for another instance (valid share)
			rf.ht = protocol.LEAN_HELIX_COMMIT
			rf.h = h + 1
			rf.v = 0
			rf.inst = clusterInstance + 1
			return a.mkC(rf, me, "", ""), "c_future_height_other_instance"
		default:
			rf.h = h + 1
			rf.inst = clusterInstance + 1
			name = "p_future_height_other_instance"
		}
		return a.mkP(rf, me, ""), name
	}
}

// craftNV: NEW_VIEW for (h, tv) signed by the leader of tv (really signed only if that leader is
// Byzantine), with a vote set mixing captured genuine votes, Byzantine votes and defective ones.
func (a *adversary) craftNV(r *run, h, tv uint64) (*interfaces.ConsensusRawMessage, string) {
	leader := a.leaderOf(h, tv)
	name := "nv"
	var votes []*protocol.ViewChangeMessageContentBuilder
	used := map[string]bool{}
	var bestView int64 = -1
	var bestBlock *vBlock
	// genuine votes for (h, tv) the adversary has seen (it sees them if the Byzantine member leads tv)
	for _, m := range a.vcSeen {
		if uint64(m.BlockHeight()) == h && uint64(m.View()) == tv && !used[string(m.SenderMemberId())] && r.rnd.Intn(5) != 0 {
			votes = append(votes, genuineVote(m))
			used[string(m.SenderMemberId())] = true
			pr := m.Content().SignedHeader().PreparedProof()
			if pr != nil && len(pr.Raw()) > 0 && int64(pr.PreprepareBlockRef().View()) > bestView {
				bestView = int64(pr.PreprepareBlockRef().View())
				bestBlock, _ = m.Block().(*vBlock)
			}
		}
	}
	// Byzantine members' own votes
	for _, id := range a.byzIds() {
		if used[string(id)] {
			continue
		}
		vd := voteD{ht: protocol.LEAN_HELIX_VIEW_CHANGE, inst: clusterInstance, h: h, v: tv, sender: id}
		if r.rnd.Intn(3) == 0 {
			variant := proofVariants[r.rnd.Intn(len(proofVariants))]
			p, b := a.proofFor(r, h, tv, variant)
			vd.proof = p
			if variant == "" && int64(p.pp.v) > bestView {
				bestView, bestBlock = int64(p.pp.v), b
			}
			if variant != "" {
				name += "_byzproof_" + variant
			}
		}
		votes = append(votes, a.voteBuilder(vd))
		used[string(id)] = true
	}
	// defects in the vote set
	switch r.rnd.Intn(9) {
	case 0: // pad with votes claimed for honest members (signatures cannot be produced: forged)
		for i := 0; i < a.cl.nMembers; i++ {
			id := a.cl.ids[i]
			if !used[string(id)] {
				votes = append(votes, a.voteBuilder(voteD{ht: protocol.LEAN_HELIX_VIEW_CHANGE, inst: clusterInstance, h: h, v: tv, sender: id}))
				used[string(id)] = true
			}
		}
		name += "_unauthenticated_votes"
	case 1: // duplicate a vote
		if len(votes) > 0 {
			votes = append(votes, votes[0])
			name += "_dup_vote"
		}
	case 2: // votes of another view replayed (genuine signatures, wrong view)
		for _, m := range a.vcSeen {
			if uint64(m.BlockHeight()) == h && uint64(m.View()) != tv && !used[string(m.SenderMemberId())] {
				votes = append(votes, genuineVote(m))
				used[string(m.SenderMemberId())] = true
				name += "_vote_other_view"
			}
		}
	case 3: // outsider vote with valid key
		votes = append(votes, a.voteBuilder(voteD{ht: protocol.LEAN_HELIX_VIEW_CHANGE, inst: clusterInstance, h: h, v: tv, sender: a.outsider()}))
		name += "_outsider_vote"
	case 4: // drop votes
		if len(votes) > 1 {
			votes = votes[:len(votes)-1]
			name += "_dropped_vote"
		}
	case 5: // a vote in the name of the node the message is made for (its signature cannot be produced: forged)
		if a.target != nil && !used[string(a.target)] {
			votes = append(votes, a.voteBuilder(voteD{ht: protocol.LEAN_HELIX_VIEW_CHANGE, inst: clusterInstance, h: h, v: tv, sender: a.target}))
			used[string(a.target)] = true
			name += "_forged_vote_of_the_receiver"
		}
	}
	// the proposal
	var b *vBlock
	switch {
	case bestBlock != nil && r.rnd.Intn(4) != 0:
		b = bestBlock
	case bestBlock != nil:
		b = a.newBody(r, h, false)
		name += "_ignores_lock"
	default:
		b = a.newBody(r, h, r.rnd.Intn(5) == 0)
	}
	d := nvD{inst: clusterInstance, h: h, v: tv, sender: leader, votes: votes, pp: ref(protocol.LEAN_HELIX_PREPREPARE, h, tv, b), ppBy: leader}
	var blk interfaces.Block = b
	switch r.rnd.Intn(10) {
	case 0:
		d.pp.v = tv + 1
		name += "_pp_other_view"
	case 1:
		blk = a.newBody(r, h, false)
		name += "_block_mismatch"
	case 2: // header hash differs from the block that is attached and (if any) proven
		if bestBlock != nil {
			d.pp.hash = hashOfBody(a.newBody(r, h, false).body)
			blk = bestBlock
			name += "_header_hash_not_proven_hash"
		}
	case 3:
		d.ppBy = a.someSigner(r)
		name += "_pp_signed_by_other"
	case 5: // the embedded proposal names the leader but its signature is not the leader's (the NEW_VIEW's own signature does not cover it)
		d.ppMode = "forged"
		name += "_proposal_sig_forged"
	case 4: // the attached block has the signed hash but says it is of another height (every consumer rejects it as a proposal for h)
		blk = &vBlock{height: h + 1, body: b.body}
		name += "_block_of_other_height"
	}
	return a.mkNV(d, blk), name
}

// mutateFor takes a genuine message an honest node sent and changes one thing about it.
func (a *adversary) mutateFor(r *run, n *cnode) (*interfaces.ConsensusRawMessage, string) {
	if len(a.rawSeen) == 0 {
		return nil, ""
	}
	lo := len(a.rawSeen) - 30
	if lo < 0 {
		lo = 0
	}
	raw := a.rawSeen[lo+r.rnd.Intn(len(a.rawSeen)-lo)]
	defer func() { recover() }()
	m := interfaces.ToConsensusMessage(raw)
	if m == nil {
		return nil, ""
	}
	h, v := uint64(m.BlockHeight()), uint64(m.View())
	other := a.cl.ids[r.rnd.Intn(a.cl.nMembers)]
	delta := func(x uint64) uint64 {
		if r.rnd.Intn(2) == 0 || x == 0 {
			return x + 1
		}
		return x - 1
	}
	switch mm := m.(type) {
	case *interfaces.PrepareMessage, *interfaces.CommitMessage, *interfaces.PreprepareMessage:
		var hd *protocol.BlockRef
		var snd *protocol.SenderSignature
		var share []byte
		var blk interfaces.Block
		kind := ""
		switch x := mm.(type) {
		case *interfaces.PrepareMessage:
			hd, snd, kind = x.Content().SignedHeader(), x.Content().Sender(), "p"
		case *interfaces.CommitMessage:
			hd, snd, share, kind = x.Content().SignedHeader(), x.Content().Sender(), x.Content().Share(), "c"
		case *interfaces.PreprepareMessage:
			hd, snd, blk, kind = x.Content().SignedHeader(), x.Content().Sender(), x.Block(), "pp"
		}
		rb := &protocol.BlockRefBuilder{MessageType: hd.MessageType(), InstanceId: hd.InstanceId(), BlockHeight: hd.BlockHeight(), View: hd.View(), BlockHash: hd.BlockHash()}
		sb := &protocol.SenderSignatureBuilder{MemberId: snd.MemberId(), Signature: snd.Signature()}
		name := ""
		containerKind := kind
		switch r.rnd.Intn(8) {
		case 0:
			rb.View = primitives.View(delta(v))
			name = "_view_changed"
		case 1:
			rb.BlockHeight = primitives.BlockHeight(delta(h))
			name = "_height_changed"
		case 2:
			rb.InstanceId = clusterInstance + 1
			name = "_instance_changed"
		case 3:
			sb.MemberId = other
			name = "_sender_swapped"
		case 4:
			sb.Signature = a.forge()
			name = "_sig_corrupted"
		case 5:
			rb.BlockHash = hashOfBody(a.newBody(r, h, false).body)
			name = "_hash_changed"
		case 6: // genuine signature moved into another container (cross-type replay)
			containerKind = []string{"p", "c", "pp"}[r.rnd.Intn(3)]
			name = "_as_" + containerKind
		default: // exact replay to this node
			name = "_replayed"
		}
		c := &protocol.LeanhelixContentBuilder{}
		switch containerKind {
		case "p":
			c.Message, c.PrepareMessage = protocol.LEANHELIX_CONTENT_MESSAGE_PREPARE_MESSAGE, &protocol.PrepareContentBuilder{SignedHeader: rb, Sender: sb}
		case "c":
			if share == nil {
				share = a.share(snd.MemberId(), hd.BlockHeight(), "")
			}
			c.Message, c.CommitMessage = protocol.LEANHELIX_CONTENT_MESSAGE_COMMIT_MESSAGE, &protocol.CommitContentBuilder{SignedHeader: rb, Sender: sb, Share: share}
		default:
			if blk == nil {
				blk = a.knownBlock(r, h)
			}
			c.Message, c.PreprepareMessage = protocol.LEANHELIX_CONTENT_MESSAGE_PREPREPARE_MESSAGE, &protocol.PreprepareContentBuilder{SignedHeader: rb, Sender: sb}
		}
		return wrap(c, blk), "mut_" + kind + name
	case *interfaces.ViewChangeMessage:
		vb := genuineVote(mm)
		name := ""
		var blk interfaces.Block = mm.Block()
		switch r.rnd.Intn(6) {
		case 0:
			vb.SignedHeader.View = primitives.View(delta(v))
			name = "_view_changed"
		case 1:
			vb.Sender.MemberId = other
			name = "_sender_swapped"
		case 2:
			vb.Sender.Signature = a.forge()
			name = "_sig_corrupted"
		case 3:
			blk = nil
			name = "_block_removed"
		case 4:
			vb.SignedHeader.PreparedProof = nil
			name = "_proof_removed"
		default:
			name = "_replayed"
		}
		return wrap(&protocol.LeanhelixContentBuilder{Message: protocol.LEANHELIX_CONTENT_MESSAGE_VIEW_CHANGE_MESSAGE, ViewChangeMessage: vb}, blk), "mut_vc" + name
	case *interfaces.NewViewMessage:
		nb := protocol.NewViewMessageContentBuilderFromRaw(mm.Content().Raw())
		_ = nb
		// rebuild field by field so that single parts can be changed
		hd := mm.Content().SignedHeader()
		var votes []*protocol.ViewChangeMessageContentBuilder
		it := hd.ViewChangeConfirmationsIterator()
		for it.HasNext() {
			c := it.NextViewChangeConfirmations()
			votes = append(votes, genuineVote(interfaces.NewViewChangeMessage(c, nil)))
		}
		pp := mm.Content().Message()
		ppb := &protocol.PreprepareContentBuilder{
			SignedHeader: &protocol.BlockRefBuilder{MessageType: pp.SignedHeader().MessageType(), InstanceId: pp.SignedHeader().InstanceId(), BlockHeight: pp.SignedHeader().BlockHeight(), View: pp.SignedHeader().View(), BlockHash: pp.SignedHeader().BlockHash()},
			Sender:       &protocol.SenderSignatureBuilder{MemberId: pp.Sender().MemberId(), Signature: pp.Sender().Signature()}}
		hb := &protocol.NewViewHeaderBuilder{MessageType: hd.MessageType(), InstanceId: hd.InstanceId(), BlockHeight: hd.BlockHeight(), View: hd.View(), ViewChangeConfirmations: votes}
		sb := &protocol.SenderSignatureBuilder{MemberId: mm.Content().Sender().MemberId(), Signature: mm.Content().Sender().Signature()}
		var blk interfaces.Block = mm.Block()
		name := ""
		switch r.rnd.Intn(7) {
		case 0:
			if len(votes) > 0 {
				hb.ViewChangeConfirmations = votes[:len(votes)-1]
			}
			name = "_vote_dropped" // header changes, leader signature no longer covers it
		case 1:
			blk = a.newBody(r, h, false)
			name = "_block_swapped"
		case 2:
			ppb.SignedHeader.BlockHash = hashOfBody(a.newBody(r, h, false).body)
			name = "_pp_hash_changed"
		case 3:
			sb.Signature = a.forge()
			name = "_sig_corrupted"
		case 4:
			ppb.Sender.Signature = a.forge()
			name = "_pp_sig_corrupted"
		case 5:
			blk = nil
			name = "_block_removed"
		default:
			name = "_replayed"
		}
		return wrap(&protocol.LeanhelixContentBuilder{Message: protocol.LEANHELIX_CONTENT_MESSAGE_NEW_VIEW_MESSAGE,
			NewViewMessage: &protocol.NewViewMessageContentBuilder{SignedHeader: hb, Sender: sb, Message: ppb}}, blk), "mut_nv" + name
	}
	return nil, ""
}

// garbageFor: bytes that are not a well-formed message (C12).
func (a *adversary) garbageFor(r *run, n *cnode) (*interfaces.ConsensusRawMessage, string) {
	switch r.rnd.Intn(5) {
	case 0:
		b := make([]byte, r.rnd.Intn(64))
		r.rnd.Read(b)
		return &interfaces.ConsensusRawMessage{Content: b}, "garbage_random"
	case 1:
		return &interfaces.ConsensusRawMessage{Content: []byte{}}, "garbage_empty"
	case 2: // no content at all (a nil slice is not the same thing as an empty one to a membuffers reader), with or without a block
		if r.rnd.Intn(2) == 0 {
			return &interfaces.ConsensusRawMessage{Content: nil, Block: a.newBody(r, uint64(n.st.Height()), false)}, "garbage_nil_content_with_block"
		}
		return &interfaces.ConsensusRawMessage{Content: nil}, "garbage_nil_content"
	default:
		if len(a.rawSeen) == 0 {
			return nil, ""
		}
		src := a.rawSeen[r.rnd.Intn(len(a.rawSeen))]
		if len(src.Content) < 2 {
			return nil, ""
		}
		cut := r.rnd.Intn(len(src.Content))
		b := append([]byte{}, src.Content[:cut]...)
		if r.rnd.Intn(2) == 0 && cut > 4 {
			b[r.rnd.Intn(cut)] ^= byte(1 << uint(r.rnd.Intn(8)))
			return &interfaces.ConsensusRawMessage{Content: b, Block: src.Block}, "garbage_truncated_flipped"
		}
		return &interfaces.ConsensusRawMessage{Content: b, Block: src.Block}, "garbage_truncated"
	}
}

// blockProofAbs: abstract view of a block proof, with ground-truth signature checks.
func (cl *cluster) blockProofAbs(proof []byte) (out obj) {
	defer func() {
		if r := recover(); r != nil {
			out = obj{"bad": true}
		}
	}()
	if len(proof) == 0 {
		return obj{"bad": true}
	}
	bp := protocol.BlockProofReader(proof)
	o := obj{"bad": false}
	cl.refAbs("", bp.BlockRef(), o)
	signers := []obj{}
	it := bp.NodesIterator()
	for it.HasNext() {
		s := it.NextNodes()
		signers = append(signers, obj{"s": cl.nameOf(s.MemberId()), "sig": cl.sigOK(bp.BlockRef().BlockHeight(), bp.BlockRef().Raw(), s)})
	}
	o["signers"] = signers
	seedOK := false
	h := uint64(bp.BlockRef().BlockHeight())
	if exp, ok := cl.expectedSeed(h); ok {
		seedOK = string(bp.RandomSeedSignature()) == string(cl.ring.aggregateSig(h, exp))
	}
	o["seedok"] = seedOK
	return o
}
