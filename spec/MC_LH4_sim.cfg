CONSTANTS MaxView = 2 ByzBudget = 6 Blocks <- cBlocks Hdr <- cHdr Dev = {}
INIT Init
NEXT Next
CHECK_DEADLOCK FALSE
