package main

// C05: an adversarial asynchronous prefix on real nodes, then stabilisation: from then on every message
// among the live correct nodes is delivered before any of their election timers (base * 2^view, simulated
// discrete time, arbitrary phases left by the prefix) fires; Byzantine members keep sending whatever they
// like; some correct members may have crashed as long as the live correct ones hold quorum weight.

import (
	"github.com/orbs-network/lean-helix-go/services/interfaces"

	"flag"
	"fmt"
	"math"
	"sort"
)

func init() { register("liveness", cmdLiveness) }

type liveRun struct {
	*run
	crashed  map[int]bool
	armedAt  map[int]float64
	lastReg  map[int][2]uint64
	now      float64
	timeouts int
}

func (lr *liveRun) live() []*cnode {
	var out []*cnode
	for _, n := range lr.honest() {
		if !lr.crashed[n.idx] {
			out = append(out, n)
		}
	}
	return out
}

// noteRegs: whenever a node's registered election pair changes, its timer was re-armed now.
func (lr *liveRun) noteRegs() {
	for _, n := range lr.live() {
		cur := [2]uint64{n.regH, n.regV}
		if n.regCb != nil && lr.lastReg[n.idx] != cur {
			lr.lastReg[n.idx] = cur
			lr.armedAt[n.idx] = lr.now
		}
	}
}

// commitView: the view in which height h was first committed by a live node (-1: not yet)
func (lr *liveRun) commitOf(h uint64) (bool, string) {
	for _, n := range lr.live() {
		for _, c := range n.allCommits {
			if c.block != nil && c.block.height == h {
				return true, c.block.body
			}
		}
	}
	return false, ""
}

// acceptorsPending: live nodes still at height h that hold the committed block as a stored proposal but have not committed
func (lr *liveRun) acceptorsPending(h uint64, body string) []string {
	var out []string
	for _, n := range lr.live() {
		if uint64(n.st.Height()) != h || n.wedged {
			continue
		}
		st := n.nodeState()
		if st["committed"].(bool) {
			continue
		}
		for _, p := range st["pp"].([]obj) {
			if p["blk"] == body && absNum(uint64(n.st.View())) == p["v"] {
				out = append(out, idName(n.idx))
			}
		}
	}
	return out
}

func cmdLiveness(args []string) int {
	fs := flag.NewFlagSet("liveness", flag.ExitOnError)
	outPath := fs.String("out", "liveness.ndjson", "")
	seed := fs.Int64("seed", 1, "")
	runs := fs.Int("runs", 100, "")
	prefix := fs.Int("prefix", 120, "steps of the asynchronous prefix")
	only := fs.Int("only", -1, "")
	nMax := fs.Int("nmax", 7, "")
	allCuts := fs.Bool("allcuts", false, "cut every directed schedule after every number of steps")
	cuts := fs.Int("cuts", 0, "per directed schedule: one full run as prefix plus cuts-1 runs cut at a random step")
	fs.Parse(args)
	out := newNdjson(*outPath)
	defer out.close()
	stats := map[string]int{}
	tmpl := map[string]int{}
	worst := 0.0
	scNames := scenarioNames()
	// plan: the random prefixes, then every directed schedule in full and cut short.  -allcuts: cut after EVERY number of steps
	// 1..length-1 (the state a schedule leaves behind matters at one particular step: a lock just taken, a vote just lost);
	// otherwise cuts-1 budgets per schedule spread evenly over 3..42, shifted by the seed
	type planned struct {
		scen   string
		budget int
	}
	var plan []planned
	for i := 0; i < *runs; i++ {
		plan = append(plan, planned{"", 0})
	}
	for _, sn := range scNames {
		plan = append(plan, planned{sn, -1})
		if *allCuts {
			for b := 1; b < scenarioLength(sn); b++ {
				plan = append(plan, planned{sn, b})
			}
			continue
		}
		for k := 1; k < *cuts; k++ {
			stride := 40 / (*cuts - 1)
			if stride < 1 {
				stride = 1
			}
			plan = append(plan, planned{sn, 3 + ((k-1)*stride+int(*seed)*7)%40})
		}
	}
	for i := 0; i < len(plan); i++ {
		if *only >= 0 && i != *only {
			continue
		}
		rnd := newRand(*seed*15485863 + int64(i))
		n := 4 + rnd.Intn(*nMax-3)
		ws := pickWeights(rnd, n)
		byz := pickByz(rnd, ws)
		scen := plan[i].scen
		if scen != "" { // the asynchronous prefix is a directed schedule of the attack library
			n, ws, byz = 4, scenarioWeights(scen), scenarioByz(scen)
		}
		cl := newCluster(ws, byz, 1, scen == "" && rnd.Intn(2) == 0)
		cl.oneShotTimer = scen != "" // directed prefixes only: in the random prefixes (thorough tier, seed 1, run 5170) it led to an alarm on the unchanged tree that was not analysed - see DESIGN 7
		r := &run{cl: cl, adv: newAdversary(cl), rnd: rnd, out: out, chain: map[uint64]commitRec{}, maxH: 1, stats: stats, tmpl: tmpl, label: "liveness"}
		lr := &liveRun{run: r, crashed: map[int]bool{}, armedAt: map[int]float64{}, lastReg: map[int][2]uint64{}}
		r.emitInit(i)
		if scen == "" {
			r.startNodes()
			pol := randomPolicy(rnd)
			r.loop(rnd.Intn(*prefix+1), pol)
		} else {
			r.label, r.maxH = "liveness:"+scen, 2
			budget := plan[i].budget
			scenarioTable[scen](&sc{run: r, name: scen, budget: budget})
		}
		// bring every correct node to the same height (node sync), the height that will be decided
		var top uint64
		for _, nd := range r.honest() {
			if h := uint64(nd.st.Height()); h > top {
				top = h
			}
		}
		for _, nd := range r.honest() {
			if uint64(nd.st.Height()) < top {
				if c, ok := r.chain[top-1]; ok {
					nd.sync(c.block, c.proof)
					r.record(nd, "sync", obj{"k": "-"}, obj{"synch": absNum(top - 1)})
				}
			}
		}
		// crash correct members while the live ones still hold quorum weight
		var total, byzW uint64
		for j, w := range ws {
			total += w
			if cl.byz[j] {
				byzW += w
			}
		}
		q := total - (total-1)/3
		liveW := total - byzW
		for _, nd := range r.honest() {
			if liveW-ws[nd.idx] >= q && rnd.Intn(3) == 0 {
				lr.crashed[nd.idx] = true
				liveW -= ws[nd.idx]
			}
		}
		// messages to crashed nodes are lost; the rest of the pool stays in flight
		var keep []pending
		for _, p := range r.pool {
			if !lr.crashed[p.to] && uint64(cl.nodes[p.to].st.Height()) == top {
				keep = append(keep, p)
			}
		}
		r.pool = keep
		live := lr.live()
		if len(live) == 0 || uint64(live[0].st.Height()) != top {
			cl.close()
			continue
		}
		// arbitrary timer phases left by the prefix
		vmax := uint64(0)
		for _, nd := range live {
			if v := uint64(nd.st.View()); v > vmax {
				vmax = v
			}
		}
		faulty := n - len(live)
		// the timeouts double only up to view 62 (then they saturate): a prefix that left a live node near that view is outside what C05
		// presupposes (timers base*2^view that let a lagging member catch up).  First version capped the simulated exponent at 40: two
		// members 20 views apart, both above view 40, then took turns for ever (false alarm in the making, soak seed 107).
		if vmax+uint64(4*n) >= 60 {
			cl.close()
			continue
		}
		bound := 0
		for _, nd := range live {
			bound += int(vmax-uint64(nd.st.View())) + faulty + 4
			lr.lastReg[nd.idx] = [2]uint64{nd.regH, nd.regV}
			lr.armedAt[nd.idx] = -rnd.Float64() * math.Pow(2, float64(minU64(uint64(nd.st.View()), 62)))
		}
		crashedNames := []string{}
		for j := range lr.crashed {
			crashedNames = append(crashedNames, idName(j))
		}
		sort.Strings(crashedNames)
		preGST := map[string]bool{} // proposals already in the air before stabilisation: their messages may have been lost
		for _, pp := range r.adv.ppSeen {
			preGST[blockName(pp.Block())] = true
		}
		// ... including the blocks the Byzantine members made up before stabilisation (first version: only proposals seen in
		// honest traffic - a Byzantine leader's equivocating proposal, whose COMMIT it had sent to some members only, then
		// counted as a post-stabilisation proposal: false alarm on the unchanged tree)
		cl.bodiesMu.Lock()
		for b := range cl.bodies {
			preGST[b] = true
		}
		cl.bodiesMu.Unlock()
		out.emit(obj{"ev": "stable", "order": []string{"fifo", "link_fifo", "any"}[i%3], "h": absNum(top), "bound": bound, "crashed": crashedNames, "vmax": absNum(vmax), "faulty": faulty})
		// the timely fair schedule
		for iter := 0; iter < 20000 && lr.timeouts <= 2*bound+10 && !r.beyond; iter++ {
			if done, body := lr.commitOf(top); done && len(r.pool) == 0 {
				_ = body
				break
			}
			if rnd.Intn(5) == 0 && len(byz) > 0 { // the Byzantine members never stop
				nd := live[rnd.Intn(len(live))]
				var raw, name = r.adv.craftFor(r, nd)
				if rnd.Intn(3) == 0 {
					raw, name = r.adv.mutateFor(r, nd)
				}
				if raw != nil {
					r.tmpl[name]++
					r.deliverTo(nd, raw, "deliver", "byz", name)
					lr.dropToDead(top)
					lr.noteRegs()
					continue
				}
			}
			if len(r.pool) > 0 {
				// timely, not ordered: global FIFO, FIFO per link only, or any pending message
				k := 0
				switch i % 3 {
				case 1:
					k = rnd.Intn(len(r.pool))
					for j := 0; j < k; j++ {
						if r.pool[j].from == r.pool[k].from && r.pool[j].to == r.pool[k].to {
							k = j
							break
						}
					}
				case 2:
					k = rnd.Intn(len(r.pool))
				}
				p := r.pool[k]
				r.pool = append(r.pool[:k:k], r.pool[k+1:]...)
				r.deliverTo(cl.nodes[p.to], p.raw, "deliver", p.from, "")
				lr.dropToDead(top)
				lr.noteRegs()
				continue
			}
			// quiescent: the earliest deadline fires
			var next *cnode
			best := math.Inf(1)
			for _, nd := range live {
				if nd.regCb == nil || uint64(nd.st.Height()) != top {
					continue
				}
				d := lr.armedAt[nd.idx] + math.Pow(2, float64(minU64(nd.regV, 62))) // the real timeout doubles up to view 62 and is constant from there
				if d < best {
					best, next = d, nd
				}
			}
			if next == nil {
				break
			}
			if best > lr.now {
				lr.now = best
			}
			if next.timeout() {
				lr.timeouts++
				r.record(next, "timeout", obj{"k": "-"}, nil)
				lr.dropToDead(top)
				lr.noteRegs()
			}
		}
		views := []int{}
		for _, nd := range live {
			views = append(views, absNum(uint64(nd.st.View())))
		}
		ok, body := lr.commitOf(top)
		pendingAcc := []string{}
		if ok && !preGST[body] {
			if pa := lr.acceptorsPending(top, body); pa != nil {
				pendingAcc = pa
			}
		}
		out.emit(obj{"ev": "liveness_verdict", "h": absNum(top), "committed": ok, "pre_gst_proposal": preGST[body], "acceptors_pending": pendingAcc, "timeouts": lr.timeouts, "bound": bound, "views": views, "live": len(live)})
		if bound > 0 {
			if f := float64(lr.timeouts) / float64(bound); f > worst {
				worst = f
			}
		}
		cl.close()
	}
	fmt.Printf("lines=%d worst_timeouts_over_bound=%.2f\n", out.n, worst)
	return 0
}

// dropToDead: what live nodes send to crashed nodes, or to nodes already past the deciding height, is not routed.
func (lr *liveRun) dropToDead(top uint64) {
	var keep []pending
	for _, p := range lr.pool {
		if lr.crashed[p.to] {
			continue
		}
		if m := interfaces.ToConsensusMessage(p.raw); m == nil || uint64(m.BlockHeight()) != top {
			continue // traffic of later heights is not part of this experiment
		}
		keep = append(keep, p)
	}
	lr.pool = keep
}
