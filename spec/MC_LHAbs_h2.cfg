CONSTANTS N = 4 MaxView = 1 NBlocks = 2 Byz <- ByzOne Dev <- H2 W <- W4
INIT Init
NEXT Next
INVARIANTS Agreement
CHECK_DEADLOCK FALSE
