"""C19 part 2: the election trigger state machine.  Timer.tla (register / stop / expire / deliver / abandon per
arming generation) is model checked exhaustively (at most one trigger per arming, carrying its pair, none from a
stopped timer, an armed un-superseded timer eventually delivers); the real TimerBasedElectionTrigger is driven by
a randomised driver (register, stop, sleeps, prompt / slow / absent reader) and every trace is validated by TLC
(Trace_Timer.tla): a received trigger needs an unused arming of exactly that pair that is at least base*2^view
old (call-start to receive, monotonic clock); a final fresh registration must deliver its own pair."""
import json, os, shutil
import vlib
from props import tables

PID = "C19"


def _classify(line, tags):
    return {"tags": tags, "part": "machine"}, "election trigger: %s at %s" % (",".join(tags), json.dumps(line))


def machine(rep, tier, seed, replay_seed=None):
    r = vlib.tlc_must_pass("MC_Timer", "MC_Timer.cfg", timeout=900)
    if r.violated:
        raise vlib.Inconclusive("Timer.tla violates %s itself: spec bug" % r.violated)
    rep.add_tlc(r, "Timer.tla exhaustive (3 pairs, 4 registrations), safety + liveness")
    sessions, ops = (25, 40) if tier == "quick" else (600, 80)
    tables.run_table(rep, PID, "timer", ["-seed", replay_seed or seed, "-sessions", sessions, "-ops", ops], "Trace_Timer", "Trace_Timer.cfg",
                     _classify, sample_keys=["ev", "h", "v", "t"], distinct_key=lambda e: [e.get("ev"), e.get("h"), e.get("v"), e.get("t", 0) // 500])
    rep.assumptions.append("timer part: times from Go's monotonic clock; an arming is stamped at call start, a receive after it happened")


def replay(rep, payload, seed):
    machine(rep, "quick", seed, replay_seed=payload.get("seed", seed))
