CONSTANTS MaxView = 1 ByzBudget = 3 Blocks <- cBlocks Hdr <- cHdr Dev = {}
INIT Init
NEXT Next
VIEW View
INVARIANT NeverCommitInHigherView
CHECK_DEADLOCK FALSE
