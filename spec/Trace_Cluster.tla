---------------------------- MODULE Trace_Cluster ----------------------------
(* Validation of executions recorded from N real nodes (real WorkerLoop / filter / term /     *)
(* storage / factory) driven by the harness scheduler and adversary.  One line per event at one *)
(* node: the event, the delivered message in the abstract grammar, the node's projected state   *)
(* afterwards, and what it sent / stored / asked its consumer / committed during the step.      *)
(*                                                                                              *)
(* Per line TLC evaluates (1) the step / state requirement of every listed property (tags        *)
(* c01_.. c12_..), on what the real node did, and (2) conformance with LHNode.tla: the          *)
(* specification's step function applied to the observed pre-state must give the observed       *)
(* post-state, sends, consumer calls and commits (tags drift_..: reported, never a verdict).     *)
EXTENDS LHNode, Json, IOUtils
Trace == ndJsonDeserialize(IOEnv.VERIF_TRACE)

VARIABLES l,        \* next line
          obs,      \* node -> observed node record (post-state of its last event)
          cache,    \* node -> specification-level future cache (hidden state, follows the reference filter)
          chain,    \* height -> first committed block name (C01)
          approved, \* set of <<h, blk>> approved by the consumer validator of some correct node (C04)
          hist      \* node -> what it has signed so far (C10)
vars == <<l, hdr, obs, cache, chain, approved, hist>>

Chk(cond, tag) == cond \/ PrintT(<<"VERIF_BAD", tag, l>>)

\* ---- JSON -> specification values
NSOf(p) == [h |-> p.h, view |-> p.view, prepared |-> p.prepared, committed |-> p.committed, lastnv |-> p.lastnv,
            member |-> p.member, pp |-> ToSet(p.pp), ps |-> ToSet(p.ps), cs |-> ToSet(p.cs), vs |-> ToSet(p.vs)]
DigestOf(s) ==
  LET m == s.msg IN
  [k |-> m.k, h |-> IF m.k = "BAD" THEN 0 ELSE m.h, to |-> ToSet(s.to), v |-> IF m.k = "BAD" THEN 0 ELSE m.v,
   x |-> IF m.k \in {"PP", "P", "C"} THEN m.x ELSE IF m.k = "NV" THEN m.pp.x ELSE "-",
   blk |-> IF m.k \in {"PP", "VC", "NV"} THEN m.blk ELSE "-",
   pv |-> IF m.k = "VC" /\ m.proof.has THEN m.proof.ppv ELSE -1,
   px |-> IF m.k = "VC" /\ m.proof.has THEN m.proof.ppx ELSE "-",
   ps |-> IF m.k = "VC" /\ m.proof.has THEN {m.proof.ps[i].s : i \in DOMAIN m.proof.ps} ELSE {},
   votes |-> IF m.k = "NV" THEN {[s |-> m.votes[i].s, pv |-> IF m.votes[i].proof.has THEN m.votes[i].proof.ppv ELSE -1,
                                  px |-> IF m.votes[i].proof.has THEN m.votes[i].proof.ppx ELSE "-"] : i \in DOMAIN m.votes}
             ELSE {}]
Digests(e) == [i \in DOMAIN e.sent |-> DigestOf(e.sent[i])]
SentMsgs(e, k) == {e.sent[i].msg : i \in {j \in DOMAIN e.sent : e.sent[j].msg.k = k}}

NoHist == [pp |-> {}, p |-> {}, c |-> {}, vc |-> <<0, 0>>, commits |-> <<>>, rounds |-> <<>>]

Init == /\ l = 1 /\ hdr = [com |-> <<<<"n0">>>>, w |-> [n0 |-> 1], byz |-> <<>>, nodes |-> <<>>]
        /\ obs = <<>> /\ cache = <<>> /\ chain = <<>> /\ approved = {} /\ hist = <<>>

-----------------------------------------------------------------------------
\* the specification's prediction for this event from the observed pre-state
Predict(e, n) ==
  LET full == [ns |-> obs[n], cache |-> cache[n]] IN
  CASE e.ev = "deliver" -> Deliver(full, n, e.msg, e.proposed)
    [] e.ev = "timeout" -> DoTimeout(full, n, e.proposed)
    [] e.ev = "start"   -> DoSync(full, n, 0, e.proposed)
    [] e.ev = "sync"    -> DoSync(full, n, e.synch, e.proposed)

\* ---- block proof as C02/C03 word it (strict mode)
ValidBlockProofAbs(p, blk, h) ==
  /\ ~p.bad /\ p.ht = "C" /\ p.inst = 0 /\ p.h = h /\ p.x = blk
  /\ \A i \in DOMAIN p.signers : p.signers[i].sig /\ p.signers[i].s \in Members(h)
  /\ Distinct([i \in DOMAIN p.signers |-> p.signers[i].s])
  /\ IsQuorum(h, {p.signers[i].s : i \in DOMAIN p.signers})
  /\ p.seedok

\* ---- C11: a genuine message m of a correct node, handed to the correct peer n in state pre (same height, not committed), is
\* accepted: NEW_VIEW adopted unless the peer's view is higher or it already holds a proposal for that view; VIEW_CHANGE counted
\* by the leader it is addressed to unless that leader passed the view; PREPARE counted unless the peer's view is higher; COMMIT counted
C11Accepts(m, n, pre, post) ==
  CASE m.k = "NV" -> (pre.view <= m.v /\ ~HasPP(pre, m.v)) => (post.view = m.v /\ HasPP(post, m.v) /\ ThePP(post, m.v).x = m.pp.x)
    [] m.k = "VC" -> (LeaderM(pre.h, m.vm) = n /\ pre.view <= m.v) => \E t \in post.vs : t.v = m.v /\ t.s = m.s
    [] m.k = "P"  -> (m.v >= pre.view) => \E q \in post.ps : q.v = m.v /\ q.x = m.x /\ q.s = m.s
    [] m.k = "C"  -> \E q \in post.cs : q.v = m.v /\ q.x = m.x /\ q.s = m.s
    [] OTHER -> TRUE

\* ---- property requirements on one event of node n: pre = observed state before, post = after
Judge(e, n, pre, post) ==
  LET m      == e.msg
      same   == pre.h = post.h
      newPP  == {p \in post.pp \ pre.pp : p.v > 0}
      sentP  == SentMsgs(e, "P")
      sentC  == SentMsgs(e, "C")
      sentPP == SentMsgs(e, "PP")
      sentVC == SentMsgs(e, "VC")
      sentNV == SentMsgs(e, "NV")
      effect == post # pre \/ e.sent # <<>>
      isNV   == e.ev = "deliver" /\ m.k = "NV"
      H      == hist[n]
  IN
  \* C12: no input makes the node panic; unparseable bytes change nothing
  /\ Chk(~e.panic, "c12_panic")
  /\ Chk((e.ev = "deliver" /\ m.k = "BAD") => (post = pre /\ e.sent = <<>>), "c12_garbage_changed_state")
  \* C07: acting in a view above 0 as a follower needs a valid NEW_VIEW for exactly that view
  /\ Chk(same => \A p \in newPP : p.s # n =>
                   ((isNV /\ m.v = p.v /\ ValidNewView(m, n, pre.h)) \/ (e.ev = "deliver" /\ m.k = "PP")),
         "c07_adopted_view_without_valid_new_view")
  /\ Chk(same => \A p \in newPP : p.s # n => ~(e.ev = "deliver" /\ m.k = "PP"), "c07_standalone_preprepare_in_view_above_0")
  /\ Chk(same => \A q \in sentP : q.v > 0 => (isNV /\ m.v = q.v /\ ValidNewView(m, n, pre.h)) \/ (e.ev = "deliver" /\ m.k = "PP"),
         "c07_prepare_in_view_above_0_without_valid_new_view")
  \* C07: a leader proposes in a view above 0 only on a quorum of stored votes for that view
  /\ Chk(same => \A q \in sentNV : IsQuorum(post.h, {t.s : t \in VotesAt(post, q.v)}), "c07_new_view_without_vote_quorum")
  /\ Chk(same => \A q \in sentNV :
           LET pv == ProvenVotes(q, post.h) IN
           /\ IsQuorum(post.h, {q.votes[i].s : i \in GoodVotes(q, post.h)}) /\ q.bok
           /\ IF pv # {} THEN \E i \in pv : (\A j \in pv : q.votes[j].proof.ppv <= q.votes[i].proof.ppv) /\ q.pp.x = q.votes[i].proof.ppx
              ELSE (\A i \in GoodVotes(q, post.h) : ~q.votes[i].proof.has) /\ Len(e.proposed) > 0,
         "c07_new_view_sent_without_valid_vote_set_or_lock")
  \* C08: only authentic, in-committee, role- and height-correct messages have any effect
  /\ Chk((same /\ e.ev = "deliver" /\ m.k \in {"PP", "P", "C", "VC"} /\ effect) => AuthenticFor(m, n, pre), "c08_inauthentic_message_had_effect")
  /\ Chk((same /\ isNV /\ effect) => m.v >= pre.view /\ m.h = pre.h /\ m.inst = 0 /\ m.sig, "c08_stale_or_foreign_new_view_had_effect")
  \* C09: the VIEW_CHANGE of a prepared node carries a valid proof of its highest prepared view and the block
  /\ Chk((e.ev = "timeout" /\ same /\ pre.prepared >= 0) =>
           \A q \in sentVC : /\ q.proof.has /\ q.proof.ppv = pre.prepared /\ ValidProof(q.proof, pre.h, q.v)
                             /\ HasPP(pre, pre.prepared) /\ q.proof.ppx = ThePP(pre, pre.prepared).x
                             /\ q.blk = ThePP(pre, pre.prepared).blk /\ q.bok,
         "c09_vote_without_lock")
  \* the same, with "holding a prepared certificate" read off the node's message log instead of its own flag: a stored proposal
  \* with its block and PREPAREs of quorum weight (with the proposer) for exactly its hash, on which the node has ACTED (it signed
  \* the COMMIT of that view and hash).  Without the last condition the formula asked for more than the property: a newly elected
  \* leader that had received a PREPARE of its coming view early holds proposal + quorum in its log without ever having become
  \* prepared in that view (nothing re-evaluates the log after its own proposal is stored); it signed no COMMIT there, no COMMIT
  \* quorum of that view can contain it, and reporting its older lock is what the protocol asks (false alarm of the thorough tier,
  \* seed 1, run 1078; DESIGN.md 7).
  /\ Chk((e.ev = "timeout" /\ same) =>
           LET certs == {p.v : p \in {q \in pre.pp : q.blk # "-" /\ IsQuorum(pre.h, PrepSenders(pre, q.v, q.x) \cup {q.s})
                                                     /\ <<pre.h, q.v, q.x>> \in H.c}} IN
           certs # {} => LET top == CHOOSE v \in certs : \A u \in certs : u <= v IN
                         /\ \A q \in sentVC : q.proof.has /\ q.proof.ppv = top /\ q.blk = ThePP(pre, top).blk
                         /\ (sentVC = {} => \E t \in VotesAt(post, post.view) : t.s = n /\ t.pv = top),
         "c09_vote_does_not_carry_the_certificate_in_the_log")
  /\ Chk((e.ev = "timeout" /\ same /\ pre.prepared >= 0 /\ sentVC = {}) =>
           \E t \in VotesAt(post, post.view) : t.s = n /\ t.pv = pre.prepared /\ t.blk # "-", "c09_own_vote_without_lock")
  \* C09: a NEW_VIEW embeds exactly the counted votes and re-proposes the block of the highest proof
  /\ Chk(same => \A q \in sentNV :
           LET counted == VotesAt(post, q.v)
               withP   == {t \in counted : t.pv >= 0} IN
           /\ {[s |-> q.votes[i].s, pv |-> IF q.votes[i].proof.has THEN q.votes[i].proof.ppv ELSE -1] : i \in DOMAIN q.votes}
                = {[s |-> t.s, pv |-> t.pv] : t \in counted}
           /\ IF withP = {} THEN Len(e.proposed) > 0
              ELSE \E t \in withP : (\A u \in withP : u.pv <= t.pv) /\ q.pp.x = t.px /\ q.blk = t.blk /\ q.bok,
         "c09_new_view_does_not_carry_lock")
  \* C20: the votes a correct leader re-embeds in its NEW_VIEW were stored with valid signatures (C08); re-read from the bytes it
  \* sends, every one of them still verifies under its sender's key
  /\ Chk(\A q \in sentNV : \A i \in DOMAIN q.votes : q.votes[i].sig, "c20_reembedded_vote_signature_no_longer_verifies")
  /\ Chk(\A q \in sentVC : q.proof.has => (q.proof.ppsig /\ \A i \in DOMAIN q.proof.ps : q.proof.ps[i].sig), "c20_reembedded_proof_signature_no_longer_verifies")
  \* C10: no equivocation, phase order
  /\ Chk(\A q \in sentP : /\ ~\E o \in H.p : o[1] = q.h /\ o[2] = q.v /\ o[3] # q.x
                          /\ q.s = n /\ n # LeaderM(q.h, q.vm)
                          /\ (same => HasPP(post, q.v) /\ ThePP(post, q.v).x = q.x)
                          /\ (same => q.v >= pre.view), "c10_prepare")
  /\ Chk(\A q \in sentC : /\ ~\E o \in H.c : o[1] = q.h /\ o[2] = q.v /\ o[3] # q.x
                          /\ (same => (HasPP(post, q.v) /\ ThePP(post, q.v).x = q.x
                                       /\ (IsQuorum(post.h, PrepSenders(post, q.v, q.x) \cup {ThePP(post, q.v).s})
                                           \/ IsQuorum(post.h, ComSenders(post, q.v, q.x))))), "c10_commit")
  \* the same when the step also closes the height (the stores of the old height are gone from the post-state): what the node
  \* held is its pre-state plus the message it was just given plus its own PREPARE of this step
  /\ Chk((~same /\ e.ev = "deliver" /\ m.k \in {"PP", "P", "C", "NV"} /\ m.h = pre.h) =>
           \A q \in {c \in sentC : c.h = pre.h} :
             LET cs2 == pre.cs \cup (IF m.k = "C" THEN {[v |-> m.v, x |-> m.x, s |-> m.s]} ELSE {})
                 ps2 == pre.ps \cup (IF m.k = "P" THEN {[v |-> m.v, x |-> m.x, s |-> m.s]} ELSE {}) \cup {[v |-> p.v, x |-> p.x, s |-> n] : p \in {r \in sentP : r.h = pre.h}}
                 pp2 == pre.pp \cup (IF m.k = "PP" THEN {[v |-> m.v, x |-> m.x, s |-> m.s]} ELSE IF m.k = "NV" THEN {[v |-> m.v, x |-> m.pp.x, s |-> m.s]} ELSE {})
             IN \E p \in pp2 : /\ p.v = q.v /\ p.x = q.x
                                /\ \/ IsQuorum(pre.h, {t.s : t \in {u \in ps2 : u.v = q.v /\ u.x = q.x}} \cup {p.s})
                                   \/ IsQuorum(pre.h, {t.s : t \in {u \in cs2 : u.v = q.v /\ u.x = q.x}}),
         "c10_commit")
  \* ... and within one step (a step may close a height and drain the future cache): one hash per (height, view) and kind
  /\ Chk(\A q1, q2 \in sentP : (q1.h = q2.h /\ q1.v = q2.v) => q1.x = q2.x, "c10_prepare")
  /\ Chk(\A q1, q2 \in sentC : (q1.h = q2.h /\ q1.v = q2.v) => q1.x = q2.x, "c10_commit")
  /\ Chk(\A q1, q2 \in sentPP : (q1.h = q2.h /\ q1.v = q2.v) => q1.x = q2.x, "c10_two_proposals")
  /\ Chk(\A q \in sentPP : ~\E o \in H.pp : o[1] = q.h /\ o[2] = q.v /\ o[3] # q.x, "c10_two_proposals")
  /\ Chk(\A q \in sentNV : ~\E o \in H.pp : o[1] = q.h /\ o[2] = q.v /\ o[3] # q.pp.x, "c10_two_proposals")
  /\ Chk(same => \A q \in sentPP \cup sentNV : q.v >= pre.view, "c10_proposal_below_current_view")
  /\ Chk(\A q \in sentVC : H.vc[1] < q.h \/ (H.vc[1] = q.h /\ H.vc[2] < q.v), "c10_view_change_views_not_increasing")
  \* C11: genuine messages of correct nodes are accepted by correct peers in a matching state
  /\ Chk((e.ev = "deliver" /\ same /\ e.from \in Correct /\ e.tmpl \in {"", "dup"} /\ m.h = pre.h /\ ~pre.committed /\ pre.member) => C11Accepts(m, n, pre, post),
         "c11_honest_message_rejected")
  \* C13: the heights passed to the new-consensus-round callback strictly increase
  /\ Chk(LET all == H.rounds \o [i \in DOMAIN e.rounds |-> e.rounds[i].h] IN
           \A i, j \in DOMAIN all : (i < j /\ j > Len(H.rounds)) => all[i] < all[j], "c13_round_heights_not_increasing")
  \* C18: the leader a correct node computes for the view of a proposal - the proposer it names to its consumer when it
  \* asks for the proposal's validation - is the member at position (view mod committee size), whatever view the node is in
  /\ Chk((e.ev = "deliver" /\ same /\ m.k \in {"PP", "NV"}) => \A i \in DOMAIN e.vals : e.vals[i].by = LeaderM(pre.h, m.vm),
         "c18_proposer_named_to_consumer_is_not_the_leader_of_the_view")
  \* C18: the ordered committee a correct node's term computes leaders from is the committee of that height, in its order, for as
  \* long as the term lives (every correct node must find the same member at position view mod size)
  /\ Chk(e.tcom = <<>> \/ e.tcom = Com(post.h), "c18_term_committee_is_not_the_ordered_committee_of_the_height")
  \* C17 in situ: a message reaches the protocol logic of a term only if its height is that term's height
  /\ Chk(\A i \in DOMAIN e.stores : e.stores[i].h = e.stores[i].at, "c17_message_handled_by_term_of_other_height")
  \* C17: a node that is not in the committee of its height has no term logic for that height: a message delivered to it is
  \* handled by nothing (if anything is stored, validated or sent, the term of ANOTHER height handled it)
  /\ Chk((e.ev = "deliver" /\ same /\ ~pre.member) => (e.stores = <<>> /\ e.sent = <<>> /\ e.vals = <<>>),
         "c17_message_handled_although_node_has_no_term_of_that_height")
  \* C04: "proposed in a PREPREPARE signed by the legitimate leader of its view": a proposal of another member that a node takes into
  \* its log comes from a PREPREPARE - standalone or embedded in a NEW_VIEW, whose own signature does not cover it - that verifies
  \* under the key of the leader of its view
  /\ Chk((e.ev = "deliver" /\ same /\ \E i \in DOMAIN e.stores : e.stores[i].kind = "PP" /\ e.stores[i].s # n) =>
           \/ (m.k = "PP" /\ m.sig /\ m.s = LeaderM(pre.h, m.vm))
           \/ (m.k = "NV" /\ m.pp.sig /\ m.pp.s = LeaderM(pre.h, m.vm)),
         "c04_stored_proposal_not_signed_by_the_leader_of_its_view")
  \* C04: "approved by ValidateBlockProposal ... at that height": what a node asks its consumer to validate is asked for a height
  \* the node is deciding in this step (its height before the step .. its height after it: a step may close a height and go on)
  /\ Chk(\A j \in DOMAIN e.vals : e.vals[j].h >= pre.h /\ e.vals[j].h <= post.h, "c04_consumer_asked_to_validate_for_another_height")
  \* C01 / C03 / C04 at every commit callback
  /\ \A i \in DOMAIN e.commits :
       LET c == e.commits[i]
           Base == IF e.ev = "sync" /\ e.rounds # <<>> THEN e.rounds[1].h ELSE pre.h IN
       /\ Chk(c.h \notin DOMAIN chain \/ chain[c.h] = c.blk, "c01_fork")
       /\ Chk(c.strict /\ ValidBlockProofAbs(c.proof, c.blk, c.h), "c03_committed_pair_rejected")
       /\ Chk(~c.proof.bad => c.proof.x = c.blk, "c04_committed_block_does_not_match_the_certified_hash")
       \* C04: the i-th block a step hands over is for the i-th height from the one the node was deciding
       \* (a sync step first moves the node to the height after the synced block and then drains the future cache, which may hold a whole
       \* round: the height being decided is then the one the sync started - first version compared with the height before the sync: false
       \* alarm in the making, soak seed 112)
       /\ Chk(c.h = Base + i - 1, "c04_committed_block_is_not_for_the_height_being_decided")
       \* C04: (first commit of the step) the block was proposed - stored proposal, the proposal just delivered, or after a sync the
       \* proposal drained from the cache - by the leader of its view
       /\ Chk((i = 1 /\ pre.member) =>
                \/ (e.ev # "sync" /\ \E p \in pre.pp : p.blk = c.blk /\ (p.v >= 1000000 \/ p.s = LeaderM(pre.h, p.v % NCom(pre.h))))
                \/ (e.ev = "deliver" /\ e.msg.k \in {"PP", "NV"} /\ e.msg.blk = c.blk /\ e.msg.s = LeaderM(pre.h, e.msg.vm))
                \/ (e.ev = "sync" /\ \E j \in DOMAIN e.stores : /\ e.stores[j].kind = "PP" /\ e.stores[j].h = Base /\ e.stores[j].blk = c.blk
                                                               /\ (e.stores[j].v >= 1000000 \/ e.stores[j].s = LeaderM(Base, e.stores[j].v % NCom(Base)))),
              "c04_committed_block_was_not_proposed_by_the_leader_of_its_view")
       /\ Chk(<<c.h, c.blk>> \in approved \/ \E j \in DOMAIN e.vals : e.vals[j].ok /\ e.vals[j].blk = c.blk, "c04_unvalidated_block_committed")
       /\ Chk(\A j \in DOMAIN H.commits : H.commits[j] < c.h, "c13_commit_heights_not_increasing")

\* after a round change: every message stored for the new height must come from the cache the
\* reference filter would have kept (same instance, not own, future at receipt) and be authentic
JudgeDrain(e, n, pre, post) ==
  LET c == cache[n]
      msgs == IF c.h = post.h THEN SeqToSet(c.msgs) ELSE {}
      dummy == [pre EXCEPT !.h = post.h, !.view = 0]
      expl(kind, v, x, s) == \E mm \in msgs : mm.k = kind /\ mm.v = v /\ mm.s = s /\ (kind = "VC" \/ mm.x = x)
                                              /\ AuthenticFor(mm, n, dummy)
  IN /\ Chk(\A q \in post.ps : q.s # n => expl("P", q.v, q.x, q.s), "c08_unexplained_store_after_round_start")
     /\ Chk(\A q \in post.cs : q.s # n => expl("C", q.v, q.x, q.s), "c08_unexplained_store_after_round_start")
     /\ Chk(\A q \in post.vs : q.s # n => expl("VC", q.v, "-", q.s), "c08_unexplained_store_after_round_start")
     /\ Chk(\A q \in post.pp : q.s # n => (expl("PP", q.v, q.x, q.s) \/ \E mm \in msgs : mm.k = "NV" /\ mm.v = q.v /\ ValidNewView(mm, n, post.h)),
            "c08_unexplained_store_after_round_start")
     \* C07 on this path: a proposal of a view above 0 held right after a round start came out of the cache, and must be the
     \* proposal of a valid NEW_VIEW (for this instance - others never enter the cache) that was waiting there
     /\ Chk(\A q \in post.pp : (q.s # n /\ q.v > 0) => \E mm \in msgs : mm.k = "NV" /\ mm.v = q.v /\ mm.pp.x = q.x /\ ValidNewView(mm, n, post.h),
            "c07_adopted_view_without_valid_new_view_at_round_start")
     \* ... and a view above 0 right after a round start was entered through such a NEW_VIEW - or by the node's own election from
     \* cached votes, in which case it holds its own proposal for that view (first version demanded the NEW_VIEW in both cases:
     \* false alarm on a lagging member that drained a quorum of cached votes addressed to itself)
     /\ Chk(post.view > 0 => \/ \E mm \in msgs : mm.k = "NV" /\ mm.v = post.view /\ ValidNewView(mm, n, post.h)
                             \/ \E p \in post.pp : p.v = post.view /\ p.s = n,
            "c07_adopted_view_without_valid_new_view_at_round_start")

Conforms(e, n, post) ==
  LET pr == Predict(e, n) IN
  /\ Chk(pr.ns = post, "drift_state")
  /\ Chk(pr.out = Digests(e), "drift_sent")
  /\ Chk(pr.commits = [i \in DOMAIN e.commits |-> e.commits[i].blk], "drift_commits")
  /\ Chk(pr.vals = [i \in DOMAIN e.vals |-> [blk |-> e.vals[i].blk, ok |-> e.vals[i].ok, by |-> e.vals[i].by]], "drift_consumer_calls")
  /\ Chk(\A i \in DOMAIN e.proposedby : e.proposedby[i] = n, "drift_proposal_requested_in_another_name")

NextHist(H, e) ==
  [pp |-> H.pp \cup {<<q.h, q.v, q.x>> : q \in SentMsgs(e, "PP")} \cup {<<q.h, q.v, q.pp.x>> : q \in SentMsgs(e, "NV")},
   p  |-> H.p \cup {<<q.h, q.v, q.x>> : q \in SentMsgs(e, "P")},
   c  |-> H.c \cup {<<q.h, q.v, q.x>> : q \in SentMsgs(e, "C")},
   vc |-> IF SentMsgs(e, "VC") = {} THEN H.vc ELSE LET q == CHOOSE q \in SentMsgs(e, "VC") : TRUE IN <<q.h, q.v>>,
   commits |-> H.commits \o [i \in DOMAIN e.commits |-> e.commits[i].h],
   rounds |-> H.rounds \o [i \in DOMAIN e.rounds |-> e.rounds[i].h]]

Next ==
  /\ l <= Len(Trace)
  /\ l' = l + 1
  /\ LET e == Trace[l] IN
     IF e.ev = "init"
     THEN /\ hdr' = e
          /\ obs' = [n \in ToSet(e.nodes) |-> InitFull.ns]
          /\ cache' = [n \in ToSet(e.nodes) |-> InitFull.cache]
          /\ chain' = <<>> /\ approved' = {}
          /\ hist' = [n \in ToSet(e.nodes) |-> NoHist]
     ELSE IF e.ev \in {"stable", "liveness_verdict", "specreplay_abort", "wedged"}
     THEN /\ UNCHANGED <<hdr, obs, cache, chain, approved, hist>>
          \* C12: a node given one input (a message, an election trigger, a sync) handles it and waits for the next; one that does
          \* not come back (10 s on an input that takes microseconds) is wedged
          /\ Chk(e.ev # "wedged", "c12_node_wedged")
          \* C05: after stabilisation some view led by a live correct member ends in commit within the bound of timer
          \* rounds, and every live member that accepted that view's proposal commits it
          /\ Chk(e.ev = "liveness_verdict" => e.committed, "c05_no_commit_after_stabilisation")
          /\ Chk(e.ev = "liveness_verdict" => e.timeouts <= 2 * e.bound + 10, "c05_commit_needed_too_many_timer_rounds")
          /\ Chk(e.ev = "liveness_verdict" => e.acceptors_pending = <<>>, "c05_acceptor_of_committed_view_did_not_commit")
     ELSE IF e.ev = "probe"
     \* C11, "delivered at once to replayed copies of every correct peer": the message a correct node just sent was handed to a
     \* copy-by-replay of the correct peer e.n (a fresh real node given every input e.n has had); the run itself is not affected
     THEN /\ UNCHANGED <<hdr, obs, cache, chain, approved, hist>>
          /\ LET pre == NSOf(e.pre)  post == NSOf(e.post) IN
             /\ Chk(~e.panic, "c12_panic")
             /\ Chk((e.msg.h = pre.h /\ pre.h = post.h /\ ~pre.committed /\ pre.member) => C11Accepts(e.msg, e.n, pre, post),
                    "c11_honest_message_rejected_by_replayed_copy_of_peer")
     ELSE LET n == e.n  pre == obs[n]  post == NSOf(e.post)  pr == Predict(e, n) IN
          /\ UNCHANGED hdr
          /\ obs' = [obs EXCEPT ![n] = post]
          /\ cache' = [cache EXCEPT ![n] = pr.cache]
          /\ chain' = FoldLeft(LAMBDA acc, c : IF c.h \in DOMAIN acc THEN acc ELSE acc @@ (c.h :> c.blk), chain, e.commits)
          /\ approved' = approved \cup {<<e.vals[i].h, e.vals[i].blk>> : i \in {j \in DOMAIN e.vals : e.vals[j].ok}}
          /\ hist' = [hist EXCEPT ![n] = NextHist(@, e)]
          /\ Judge(e, n, pre, post)
          /\ (pre.h # post.h => JudgeDrain(e, n, pre, post))
          /\ Conforms(e, n, post)
=============================================================================
