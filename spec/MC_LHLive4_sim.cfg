CONSTANTS MaxView = 3 PreMaxView = 1 Canon = FALSE ByzBudget = 2 Blocks <- cBlocks Hdr <- cHdr Dev = {} Ablate = {}
INIT LInit
NEXT LNext
INVARIANTS NoStall Agreement
CHECK_DEADLOCK FALSE
