------------------------------- MODULE MC_LH2H4 -------------------------------
(* N = 4, n1 Byzantine; at height 2 the correct member n3 has left the committee (its place is taken by the silent o1). *)
EXTENDS MC_LH2H
c1 == <<"n0", "n1", "n2", "n3">>
c2 == <<"n0", "n1", "n2", "o1">>
cHdr == [com |-> <<c1, c1, c2, c2>>, w |-> [n0 |-> 1, n1 |-> 1, n2 |-> 1, n3 |-> 1, o1 |-> 1], byz |-> <<"n1">>, nodes |-> <<"n0", "n2", "n3">>]
cHdrSame == [com |-> <<c1, c1, c1, c1>>, w |-> [n0 |-> 1, n1 |-> 1, n2 |-> 1, n3 |-> 1], byz |-> <<"n1">>, nodes |-> <<"n0", "n2", "n3">>]
cBlocks == {"z"}
\* for the ablation of the drain's height guard: the Byzantine member n0 leads view 0 of both heights and has two blocks to equivocate with
cHdrB0 == [com |-> <<c1, c1, c1, c1>>, w |-> [n0 |-> 1, n1 |-> 1, n2 |-> 1, n3 |-> 1], byz |-> <<"n0">>, nodes |-> <<"n1", "n2", "n3">>]
cBlocks2 == {"y", "z"}
=============================================================================
