CONSTANTS Heights = {1, 2, 3} Views = {0, 1, 2, 9}
INIT Init
NEXT Next
VIEW View
INVARIANT InvLiveOK
PROPERTIES PropNeverStaleIssue PropOnlyOlderCancelled PropNoResurrection PropReleased
CHECK_DEADLOCK FALSE
