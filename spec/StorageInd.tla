----------------------------- MODULE StorageInd -----------------------------
(* Unbounded check of the message-log laws with Apalache: heights and views range over Int, hashes and senders over Int  *)
(* (abstract ids), the log may hold any number of entries.  IndInv is inductive (Init => IndInv; IndInv /\ Next => IndInv'), and *)
(* the action properties of MC_Storage hold for every step from any state satisfying IndInv.                               *)
EXTENDS Integers, FiniteSets, Apalache
VARIABLE
  \* @type: { pp: Set({h: Int, v: Int, x: Int, s: Int}), ps: Set({h: Int, v: Int, x: Int, s: Int}), cs: Set({h: Int, v: Int, x: Int, s: Int}), vs: Set({h: Int, v: Int, s: Int}) };
  st

\* @type: ({ pp: Set({h: Int, v: Int, x: Int, s: Int}), ps: Set({h: Int, v: Int, x: Int, s: Int}), cs: Set({h: Int, v: Int, x: Int, s: Int}), vs: Set({h: Int, v: Int, s: Int}) }, Int, Int) => Bool;
HasPPAt(s, h, v) == \E p \in s.pp : p.h = h /\ p.v = v

\* @type: ({h: Int, v: Int, x: Int, s: Int}) => Bool;
StorePP(m) == st' = IF HasPPAt(st, m.h, m.v) THEN st ELSE [st EXCEPT !.pp = st.pp \union {m}]
\* @type: ({h: Int, v: Int, x: Int, s: Int}) => Bool;
StoreP(m)  == st' = [st EXCEPT !.ps = st.ps \union {m}]
\* @type: ({h: Int, v: Int, x: Int, s: Int}) => Bool;
StoreC(m)  == st' = [st EXCEPT !.cs = st.cs \union {m}]
\* @type: ({h: Int, v: Int, x: Int, s: Int}) => Bool;
StoreVC(m) == st' = [st EXCEPT !.vs = st.vs \union {[h |-> m.h, v |-> m.v, s |-> m.s]}]
\* @type: (Int) => Bool;
Clear(h) ==
  st' = [pp |-> {e \in st.pp : ~(e.h = h \/ (h > 0 /\ e.h = h - 1))},
         ps |-> {e \in st.ps : ~(e.h = h \/ (h > 0 /\ e.h = h - 1))},
         cs |-> {e \in st.cs : ~(e.h = h \/ (h > 0 /\ e.h = h - 1))},
         vs |-> {e \in st.vs : ~(e.h = h \/ (h > 0 /\ e.h = h - 1))}]

Init == st = [pp |-> {}, ps |-> {}, cs |-> {}, vs |-> {}]
Next ==
  \/ \E h \in Int, v \in Int, x \in Int, s \in Int :
       LET m == [h |-> h, v |-> v, x |-> x, s |-> s] IN StorePP(m) \/ StoreP(m) \/ StoreC(m) \/ StoreVC(m)
  \/ \E h \in Int : Clear(h)

OneProposalPerView == \A p \in st.pp : \A q \in st.pp : (p.h = q.h /\ p.v = q.v) => p = q
IndInv == OneProposalPerView
\* for Apalache --init=IndInit: any log satisfying the invariant (the sets are arbitrary)
IndInit == st = Gen(6) /\ IndInv
\* action invariant: the first proposal of a view is never replaced
FirstProposalWins == \A p \in st.pp : (\E q \in st'.pp : q.h = p.h /\ q.v = p.v) => p \in st'.pp
=============================================================================
