package main

// Random adversarial scheduler over the synchronous cluster.  Writes one ndjson line per event:
// the event (with the delivered message in the abstract grammar), the acting node's projected state
// after it, what it sent / stored / asked the consumer / committed during that one step.

import (
	"context"
	"flag"
	"fmt"
	"math/rand"

	"github.com/orbs-network/lean-helix-go/services/interfaces"
	"github.com/orbs-network/lean-helix-go/spec/types/go/primitives"
)

func init() { register("cluster", cmdCluster) }

type pending struct {
	to   int
	from string
	raw  *interfaces.ConsensusRawMessage
}

type run struct {
	cl      *cluster
	adv     *adversary
	rnd     *rand.Rand
	out     *ndjson
	pool    []pending
	history []pending // everything ever put in the pool (for duplicates / late replays)
	chain   map[uint64]commitRec
	maxH    uint64
	steps   int
	events  int
	stats   map[string]int
	tmpl    map[string]int // adversary template usage
	label   string
	probeOn bool
	probe   int // C11 (when probeOn): percent of the PREPARE / COMMIT messages a correct node sends (NEW_VIEW and VIEW_CHANGE: all) that are
	// delivered AT ONCE to replayed copies of their correct recipients
	probes, probeMismatch int
	beyond bool // a correct node's own view or height has left the range the abstraction keeps apart (>= 10^6): the run ends
}

func (r *run) honest() []*cnode {
	var out []*cnode
	for _, n := range r.cl.nodes {
		if n != nil {
			out = append(out, n)
		}
	}
	return out
}

func (r *run) emitInit(runId int) {
	cl := r.cl
	coms := [][]string{}
	for h := uint64(0); h <= r.maxH+8; h++ {
		coms = append(coms, cl.committeeNames(h))
	}
	w := obj{}
	for i := 0; i < cl.nMembers; i++ {
		w[idName(i)] = int(cl.weights[i])
	}
	if cl.exclFrom > 0 && len(cl.ids) > cl.nMembers+1 {
		w[cl.nameOf(cl.ids[cl.nMembers+1])] = int(cl.weights[cl.exclIdx]) // the silent member that takes the leaver's place
	}
	byz := []string{}
	for i := 0; i < cl.nMembers; i++ {
		if cl.byz[i] {
			byz = append(byz, idName(i))
		}
	}
	nodes := []string{}
	for _, n := range r.honest() {
		nodes = append(nodes, idName(n.idx))
	}
	r.out.emit(obj{"ev": "init", "run": runId, "com": coms, "w": w, "byz": byz, "nodes": nodes, "maxh": int(r.maxH), "label": r.label})
}

// after a node step: write the line, route what the node sent.
func (r *run) record(n *cnode, ev string, msg obj, extra obj) {
	cl := r.cl
	if n.wedged {
		r.out.emit(obj{"ev": "wedged", "n": idName(n.idx), "on": ev, "msg": msg})
		r.events++
		r.stats["wedged"]++
		r.beyond = true
		return
	}
	sent := []obj{}
	for _, s := range n.sends {
		to := []string{}
		for _, id := range s.to {
			to = append(to, cl.nameOf(id))
		}
		sent = append(sent, obj{"to": to, "msg": cl.msgAbs(s.raw)})
		if s.failed {
			r.stats["send_failed"]++
			continue
		}
		r.adv.observe(s.raw)
		for _, id := range s.to {
			for _, m := range cl.nodes {
				if m != nil && m.id.Equal(id) {
					p := pending{to: m.idx, from: idName(n.idx), raw: s.raw}
					r.pool = append(r.pool, p)
					r.history = append(r.history, p)
				}
			}
		}
	}
	stores := []obj{}
	for _, s := range n.stores {
		stores = append(stores, n.storeAbs(s))
	}
	vals := []obj{}
	for _, v := range n.validations {
		vals = append(vals, obj{"h": absNum(v.height), "blk": v.body, "ok": v.ok, "by": v.by})
	}
	commits := []obj{}
	for _, c := range n.commits {
		commits = append(commits, r.commitAbs(n, c))
	}
	rounds := n.rounds
	if rounds == nil {
		rounds = []obj{}
	}
	proposed := n.proposed
	if proposed == nil {
		proposed = []string{}
	}
	proposedBy := n.proposedBy
	if proposedBy == nil {
		proposedBy = []string{}
	}
	// the ordered committee the node's term works with right now (the leader of a view is a position in it)
	tcom := []string{}
	if term := n.worker.VerifTerm(); term != nil && term.VerifTermInCommittee() != nil {
		for _, m := range term.VerifTermInCommittee().VerifCommittee() {
			tcom = append(tcom, cl.nameOf(m.Id))
		}
	}
	line := obj{"tcom": tcom, "proposed": proposed, "proposedby": proposedBy, "ev": ev, "n": idName(n.idx), "msg": msg, "post": n.nodeState(), "sent": sent, "stores": stores, "vals": vals,
		"commits": commits, "rounds": rounds, "props": n.proposals, "panic": n.panicked != ""}
	for k, v := range extra {
		line[k] = v
	}
	r.out.emit(line)
	r.events++
	r.stats[ev]++
	if n.panicked != "" {
		r.stats["panic"]++
	}
	if r.probeOn && !n.isReplica {
		r.probeSends(n, n.sends)
	}
	// views and heights above 10^6 are class representatives in the traces: two different views of one class look the same.  That is
	// fine for a message a node judges (C12, C18), not for the node's OWN position: once it is up there (elected by extreme-view votes
	// in a lone-node run, say) later steps could not be told apart - first seen as a bogus "VIEW_CHANGE views not increasing"
	if uint64(n.st.View()) >= 1000000 || uint64(n.st.Height()) >= 1000000 {
		r.beyond = true
	}
}

// probeSends (C11, "delivered at once to replayed copies of every correct peer"): each message the correct node n just sent
// is handed, right now, to a copy-by-replay of every correct recipient; the copy's state before and after goes into the
// trace as a "probe" line, judged by the acceptance formula of C11 only.  The run itself is not affected.
func (r *run) probeSends(n *cnode, sends []sendRec) {
	for _, s := range sends {
		k := kindOf(s.raw)
		if k == "PP" || k == "BAD" {
			continue
		}
		if (k == "P" || k == "C") && r.rnd.Intn(100) >= r.probe {
			continue
		}
		abs := r.cl.msgAbs(s.raw)
		for _, id := range s.to {
			for _, m := range r.cl.nodes {
				if m == nil || m == n || !m.id.Equal(id) {
					continue
				}
				c := r.cl.replica(m)
				if c == nil {
					r.probeMismatch++
					continue
				}
				pre := c.nodeState()
				c.deliver(s.raw)
				if c.wedged {
					r.out.emit(obj{"ev": "wedged", "n": idName(m.idx), "on": "probe", "msg": abs})
					c.shutdown()
					continue
				}
				r.out.emit(obj{"ev": "probe", "n": idName(m.idx), "from": idName(n.idx), "msg": abs, "pre": pre, "post": c.nodeState(), "panic": c.panicked != ""})
				c.shutdown()
				r.probes++
			}
		}
	}
}

// commitAbs re-validates the committed pair on another correct node (C03) and records the signers.
func (r *run) commitAbs(n *cnode, c commitRec) obj {
	cl := r.cl
	o := obj{"blk": "-", "h": -1, "strict": false, "soft": false, "signers": []string{}}
	if c.block == nil {
		return o
	}
	h := c.block.height
	o["blk"], o["h"] = c.block.body, absNum(h)
	if _, ok := r.chain[h]; !ok {
		r.chain[h] = c
	}
	var prevBlock interfaces.Block
	var prevProof []byte
	if p, ok := r.chain[h-1]; ok && h > 1 {
		prevBlock, prevProof = p.block, p.proof
	}
	var other *cnode
	for _, m := range r.honest() {
		if m != n {
			other = m
			break
		}
	}
	if other == nil {
		other = n // a lone correct node: it is itself a correct node configured with the same committee and previous proof
	}
	if other != nil {
		o["strict"] = other.worker.ValidateBlockConsensus(context.Background(), c.block, c.proof, prevBlock, prevProof, false) == nil
		o["soft"] = other.worker.ValidateBlockConsensus(context.Background(), c.block, c.proof, prevBlock, prevProof, true) == nil
	}
	o["proof"] = cl.blockProofAbs(c.proof)
	return o
}

func (r *run) startNodes() {
	for _, n := range r.honest() {
		n.sync(nil, nil)
		r.record(n, "start", obj{"k": "-"}, nil)
	}
}

func (r *run) deliverTo(n *cnode, raw *interfaces.ConsensusRawMessage, ev string, from string, tmpl string) {
	msg := r.cl.msgAbs(raw)
	n.deliver(raw)
	r.record(n, ev, msg, obj{"from": from, "tmpl": tmpl})
}

func (r *run) allDone() bool {
	for _, n := range r.honest() {
		if uint64(n.st.Height()) > r.maxH+5 {
			return true
		}
	}
	for _, n := range r.honest() {
		if uint64(n.st.Height()) <= r.maxH {
			return false
		}
	}
	return true
}

type policy struct {
	deliver, dup, drop, timeout, byz, mutate, garbage, sync int
	fifo                                                    int // percent of deliveries taken from the head of the pool
}

func randomPolicy(rnd *rand.Rand) policy {
	switch rnd.Intn(5) {
	case 0: // calm: mostly in-order delivery, rare timeouts
		return policy{deliver: 80, dup: 2, drop: 1, timeout: 2, byz: 8, mutate: 4, garbage: 1, sync: 2, fifo: 80}
	case 1: // lossy with many view changes
		return policy{deliver: 50, dup: 4, drop: 12, timeout: 14, byz: 10, mutate: 6, garbage: 1, sync: 3, fifo: 40}
	case 2: // adversary heavy
		return policy{deliver: 45, dup: 3, drop: 3, timeout: 8, byz: 28, mutate: 10, garbage: 1, sync: 2, fifo: 50}
	case 3: // reordering heavy
		return policy{deliver: 70, dup: 8, drop: 2, timeout: 6, byz: 8, mutate: 4, garbage: 0, sync: 2, fifo: 5}
	default:
		return policy{deliver: 60, dup: 3, drop: 5, timeout: 9, byz: 14, mutate: 6, garbage: 1, sync: 2, fifo: 50}
	}
}

func (r *run) loop(maxSteps int, pol policy) {
	total := pol.deliver + pol.dup + pol.drop + pol.timeout + pol.byz + pol.mutate + pol.garbage + pol.sync
	hon := r.honest()
	for r.steps = 0; r.steps < maxSteps && !r.allDone() && !r.beyond; r.steps++ {
		x := r.rnd.Intn(total)
		switch {
		case x < pol.deliver:
			if len(r.pool) == 0 {
				// quiescent: nothing in flight, somebody's timer would fire
				n := hon[r.rnd.Intn(len(hon))]
				if n.timeout() {
					r.record(n, "timeout", obj{"k": "-"}, nil)
				}
				continue
			}
			i := 0
			if r.rnd.Intn(100) >= pol.fifo {
				i = r.rnd.Intn(len(r.pool))
			}
			p := r.pool[i]
			r.pool = append(r.pool[:i], r.pool[i+1:]...)
			r.deliverTo(r.cl.nodes[p.to], p.raw, "deliver", p.from, "")
		case x < pol.deliver+pol.dup:
			if len(r.history) > 0 {
				p := r.history[r.rnd.Intn(len(r.history))]
				to := p.to
				if r.rnd.Intn(3) == 0 {
					to = hon[r.rnd.Intn(len(hon))].idx // replayed to somebody else
				}
				r.deliverTo(r.cl.nodes[to], p.raw, "deliver", p.from, "dup")
			}
		case x < pol.deliver+pol.dup+pol.drop:
			if len(r.pool) > 0 {
				i := r.rnd.Intn(len(r.pool))
				r.pool = append(r.pool[:i], r.pool[i+1:]...)
				r.stats["drop"]++
			}
		case x < pol.deliver+pol.dup+pol.drop+pol.timeout:
			n := hon[r.rnd.Intn(len(hon))]
			if n.timeout() {
				r.record(n, "timeout", obj{"k": "-"}, nil)
			}
		case x < pol.deliver+pol.dup+pol.drop+pol.timeout+pol.byz:
			n := hon[r.rnd.Intn(len(hon))]
			if raw, name := r.adv.craftFor(r, n); raw != nil {
				r.tmpl[name]++
				r.deliverTo(n, raw, "deliver", "byz", name)
			}
		case x < pol.deliver+pol.dup+pol.drop+pol.timeout+pol.byz+pol.mutate:
			n := hon[r.rnd.Intn(len(hon))]
			if raw, name := r.adv.mutateFor(r, n); raw != nil {
				r.tmpl[name]++
				r.deliverTo(n, raw, "deliver", "byz", name)
			}
		case x < pol.deliver+pol.dup+pol.drop+pol.timeout+pol.byz+pol.mutate+pol.garbage:
			n := hon[r.rnd.Intn(len(hon))]
			if raw, name := r.adv.garbageFor(r, n); raw != nil {
				r.tmpl[name]++
				r.deliverTo(n, raw, "deliver", "byz", name)
			}
		default:
			r.syncLagging()
		}
	}
}

// syncLagging: node sync (UpdateState) of a node that is behind the committed chain.
func (r *run) syncLagging() {
	for _, n := range r.honest() {
		h := uint64(n.st.Height())
		// newest committed block at or above the node's height
		var best *commitRec
		for hh, c := range r.chain {
			c := c
			if hh >= h && (best == nil || hh > best.block.height) {
				best = &c
			}
		}
		if best != nil && r.rnd.Intn(2) == 0 {
			n.sync(best.block, best.proof)
			r.record(n, "sync", obj{"k": "-"}, obj{"synch": absNum(best.block.height)})
			return
		}
	}
}

func pickWeights(rnd *rand.Rand, n int) []uint64 {
	ws := make([]uint64, n)
	mode := rnd.Intn(3)
	for i := range ws {
		switch mode {
		case 0:
			ws[i] = 1
		case 1:
			ws[i] = uint64(1 + rnd.Intn(3))
		default:
			ws[i] = uint64(1 + rnd.Intn(6))
		}
	}
	// a member without voting weight (it still has its place in the order of the committee: it leads its views); decided from
	// the draws already made, so that the other runs of a seed stay what they were
	var sum uint64
	for _, w := range ws {
		sum += w
	}
	if n >= 5 && sum%3 == 0 {
		ws[int(sum)%n] = 0
	}
	return ws
}

// pickByz: a Byzantine subset of weight <= f (possibly empty).
func pickByz(rnd *rand.Rand, ws []uint64) []int {
	var total uint64
	for _, w := range ws {
		total += w
	}
	f := (total - 1) / 3
	var out []int
	var used uint64
	for _, i := range rnd.Perm(len(ws)) {
		if used+ws[i] <= f && rnd.Intn(4) != 0 {
			out = append(out, i)
			used += ws[i]
		}
	}
	return out
}

func cmdCluster(args []string) int {
	fs := flag.NewFlagSet("cluster", flag.ExitOnError)
	outPath := fs.String("out", "cluster.ndjson", "")
	seed := fs.Int64("seed", 1, "")
	runs := fs.Int("runs", 20, "")
	maxSteps := fs.Int("steps", 400, "")
	maxH := fs.Int("heights", 2, "")
	nMin := fs.Int("nmin", 4, "")
	nMax := fs.Int("nmax", 5, "")
	noByz := fs.Bool("nobyz", false, "no Byzantine members, no adversary")
	only := fs.Int("only", -1, "generate only this run index (replay)")
	probe := fs.Int("probe", -1, "C11: percent of PREPARE/COMMIT sends (NEW_VIEW / VIEW_CHANGE: all) delivered at once to replayed copies of their correct recipients; -1: none")
	lone := fs.Bool("lone", false, "ONE correct node; every other member's key is held by the adversary, so each guard of the node is reachable one deviation at a time (only per-node properties are meaningful)")
	fs.Parse(args)
	out := newNdjson(*outPath)
	defer out.close()
	stats := map[string]int{}
	tmpl := map[string]int{}
	commits := 0
	for i := 0; i < *runs; i++ {
		if *only >= 0 && i != *only {
			continue
		}
		rnd := newRand(*seed*1000003 + int64(i))
		n := *nMin + rnd.Intn(*nMax-*nMin+1)
		ws := pickWeights(rnd, n)
		byz := pickByz(rnd, ws)
		pol := randomPolicy(rnd)
		if *noByz {
			byz = nil
			pol.byz, pol.mutate, pol.garbage = 0, 0, 0
		}
		if *lone {
			keep := rnd.Intn(n)
			byz = nil
			for j := 0; j < n; j++ {
				if j != keep {
					byz = append(byz, j)
				}
			}
			pol = policy{deliver: 15, dup: 6, drop: 1, timeout: 6, byz: 52, mutate: 18, garbage: 1, sync: 1, fifo: 50}
		}
		cl := newCluster(ws, byz, 2, rnd.Intn(2) == 0)
		cl.lenient = rnd.Intn(4) == 0
		if rnd.Intn(4) == 0 {
			cl.sendFailEvery = 5 + rnd.Intn(6)
		}
		if !*lone && *maxH >= 2 && rnd.Intn(4) == 0 { // a correct member leaves the committee after the first height
			var cands []int
			for j := 0; j < n; j++ {
				if !cl.byz[j] {
					cands = append(cands, j)
				}
			}
			if len(cands) > 0 {
				cl.exclIdx, cl.exclFrom = cands[rnd.Intn(len(cands))], 2
			}
		}
		r := &run{cl: cl, adv: newAdversary(cl), rnd: rnd, out: out, chain: map[uint64]commitRec{}, maxH: uint64(*maxH), stats: stats, tmpl: tmpl, probeOn: *probe >= 0, probe: *probe}
		r.emitInit(i)
		r.startNodes()
		r.loop(*maxSteps, pol)
		stats["probes"] += r.probes
		stats["probe_replica_mismatch"] += r.probeMismatch
		for _, nd := range r.honest() {
			commits += len(nd.allCommits)
		}
		cl.close()
	}
	fmt.Printf("lines=%d commits=%d stats=%v templates=%v\n", out.n, commits, stats, tmpl)
	return 0
}

var _ = primitives.MemberId{}
