----------------------------- MODULE LHMessages -----------------------------
(* Abstract message grammar of Lean Helix and the validity predicates the listed properties *)
(* are worded in (C07, C08, C09, C11).  A message is a record mirroring the wire structure    *)
(* field by field; every signed part carries `sig`, the ground truth "this signature verifies  *)
(* under the claimed sender's key over exactly these bytes" (computed by the harness keyring  *)
(* in traces, by provenance in the model-checking instances).                                  *)
(*                                                                                             *)
(*   PP : [k, ht, inst, h, v, vm, x, s, sig, blk, bok, okfor]                                  *)
(*   P  : [k, ht, inst, h, v, vm, x, s, sig]                                                   *)
(*   C  : [k, ht, inst, h, v, vm, x, s, sig, share]                                            *)
(*   VC : [k, ht, inst, h, v, vm, s, sig, proof, blk, bok]                                     *)
(*   NV : [k, ht, inst, h, v, vm, s, sig, votes, pp, blk, bok, okfor]                          *)
(*   proof: [has] or [has, ppht, ppinst, pph, ppv, ppvm, ppx, pps, ppsig,                      *)
(*                         pht, pinst, ph, pv, px, ps: Seq([s, sig])]                          *)
(*   vote : [ht, inst, h, v, s, sig, proof]                                                    *)
(* inst = 0 is this instance; h, v are numbers (values above 10^6 are class representatives);  *)
(* vm = view mod committee size (so that the leader of a class representative is still known); *)
(* x / blk are block names ("-" = no block); bok = the attached block matches the signed hash  *)
(* and height; okfor = the correct nodes whose consumer-side validator accepts this proposal.  *)
EXTENDS Integers, Sequences, FiniteSets, SequencesExt, FiniteSetsExt, TLC

VARIABLE hdr      \* the run header: committee order per height, weights, Byzantine members, correct nodes

Com(h)      == IF h + 1 <= Len(hdr.com) THEN hdr.com[h + 1] ELSE hdr.com[Len(hdr.com)]
Members(h)  == ToSet(Com(h))
NCom(h)     == Len(Com(h))
LeaderM(h, vm) == Com(h)[(vm % NCom(h)) + 1]       \* leader of a view given as (view mod size)
WeightOf(s) == IF s \in DOMAIN hdr.w THEN hdr.w[s] ELSE 0
Weight(S)   == FoldSet(LAMBDA s, acc : acc + WeightOf(s), 0, S)
TotalW(h)   == Weight(Members(h))
\* a weightless committee has f = 0 and a quorum nobody can reach (quorum.go returns Q = 1 for W = 0)
FOf(h)      == IF TotalW(h) = 0 THEN 0 ELSE (TotalW(h) - 1) \div 3
QOf(h)      == IF TotalW(h) = 0 THEN 1 ELSE TotalW(h) - FOf(h)
IsQuorum(h, S)  == Weight(S \cap Members(h)) >= QOf(h)
HasHonest(h, S) == Weight(S \cap Members(h)) > FOf(h)
Byz         == ToSet(hdr.byz)
Correct     == ToSet(hdr.nodes)

SeqToSet(s) == {s[i] : i \in DOMAIN s}
Distinct(s) == \A i, j \in DOMAIN s : i # j => s[i] # s[j]

-----------------------------------------------------------------------------
(* A prepared proof is valid for (height h, target view tv) iff it shows valid signatures over *)
(* one (instance, height, earlier view, hash) by that view's leader and by distinct other      *)
(* committee members together reaching quorum weight.                                          *)
ProofSenders(p) == {p.ps[i].s : i \in DOMAIN p.ps}
\* everything but the instance: what the instance-agnostic validator function (ValidatePreparedProof) can decide
ValidProofBody(p, h, tv) ==
  /\ p.has
  /\ p.ppht = "PP" /\ p.pht = "P"
  /\ p.pph = h /\ p.ph = h
  /\ p.ppv < tv /\ p.pv = p.ppv
  /\ p.px = p.ppx
  /\ p.ppsig /\ p.pps = LeaderM(h, p.ppvm)
  /\ \A i \in DOMAIN p.ps : p.ps[i].sig /\ p.ps[i].s \in Members(h) /\ p.ps[i].s # p.pps
  /\ Distinct([i \in DOMAIN p.ps |-> p.ps[i].s])
  /\ IsQuorum(h, ProofSenders(p) \cup {p.pps})
ValidProof(p, h, tv) == p.has /\ p.ppinst = 0 /\ p.pinst = 0 /\ ValidProofBody(p, h, tv)

\* a vote (the signed part of a VIEW_CHANGE) is authentic for (h, v): valid signature of a committee
\* member over a VIEW_CHANGE header for exactly this instance, height and view
AuthenticVote(t, h, v) == t.sig /\ t.ht = "VC" /\ t.inst = 0 /\ t.h = h /\ t.v = v /\ t.s \in Members(h)

(* C07: a NEW_VIEW is a valid certificate for node n (at height h) to act in view m.v iff it is  *)
(* signed by the leader of that view, carries authentic votes of pairwise distinct members of     *)
(* quorum weight, and proposes the block certified by the highest VALID prepared proof among      *)
(* those votes, or a consumer-validated fresh block if none of them carries a proof.             *)
GoodVotes(m, h)  == {i \in DOMAIN m.votes : AuthenticVote(m.votes[i], h, m.v)}
ProvenVotes(m, h) == {i \in GoodVotes(m, h) : m.votes[i].proof.has /\ ValidProof(m.votes[i].proof, h, m.v)}
ValidNewView(m, n, h) ==
  /\ m.k = "NV" /\ m.ht = "NV" /\ m.inst = 0 /\ m.h = h /\ m.v > 0
  /\ m.sig /\ m.s = LeaderM(h, m.vm)
  /\ IsQuorum(h, {m.votes[i].s : i \in GoodVotes(m, h)})
  /\ m.pp.ht = "PP" /\ m.pp.inst = 0 /\ m.pp.h = h /\ m.pp.v = m.v
  /\ m.pp.sig /\ m.pp.s = m.s
  /\ LET pv == ProvenVotes(m, h) IN
       IF pv # {} THEN /\ \E i \in pv : (\A j \in pv : m.votes[j].proof.ppv <= m.votes[i].proof.ppv) /\ m.pp.x = m.votes[i].proof.ppx
                       /\ m.bok                           \* the attached block is the certified one
       ELSE (\A i \in GoodVotes(m, h) : ~m.votes[i].proof.has) /\ n \in SeqToSet(m.okfor)   \* fresh: whatever n's consumer validated

(* C08: is message m (kind PP, P, C or VC) one that may influence node n in state ns?         *)
AuthenticFor(m, n, ns) ==
  /\ m.sig /\ m.inst = 0 /\ m.h = ns.h /\ m.s \in Members(ns.h) /\ m.s # n
  /\ CASE m.k = "PP" -> m.ht = "PP" /\ m.s = LeaderM(ns.h, m.vm)
       [] m.k = "P"  -> m.ht = "P" /\ m.s # LeaderM(ns.h, m.vm) /\ m.v >= ns.view
       [] m.k = "C"  -> m.ht = "C" /\ m.share
       [] m.k = "VC" -> /\ m.ht = "VC" /\ LeaderM(ns.h, m.vm) = n /\ m.v >= ns.view
                        /\ (m.proof.has => ValidProof(m.proof, ns.h, m.v))
       [] OTHER -> FALSE
=============================================================================
