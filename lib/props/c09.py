"""C09: see props/cluster.py (one recorded trace family, this property's own formulas in Trace_Cluster.tla); plus the deciding
function of the leader's choice, GetLatestBlockFromViewChangeMessages, tabulated on vote lists in every order (Trace_Extractor.tla)."""
import json, shutil
import vlib
from props import cluster, tables

PID = "C09"


def _classify(line, tags):
    views = [v["pv"] for v in line["votes"]]
    return ({"op": "extract", "tags": tags},
            "block extractor on votes with proof views %s / blocks %s returned %s: %s" % (views, [v["x"] for v in line["votes"]], line["res"], ",".join(tags)))


def _extractor(rep, tier, seed, replay_in=None):
    tables.run_table(rep, PID, "extractor", ["-seed", seed, "-rand", 2000 if tier == "quick" else 60000], "Trace_Extractor", "Trace_Extractor.cfg",
                     _classify, replay_in=replay_in)


def run(tier, seed):
    return cluster.simple_check(PID, tier, seed, extra=_extractor)


def replay(path, seed):
    payload = json.load(open(path))
    if payload.get("kind") == "extractor-line":
        rep = vlib.Report(PID, "quick", seed)
        rep.replay_of = path
        wd = vlib.scratch_dir("c09r")
        try:
            _extractor(rep, "quick", seed, replay_in=tables.replay_line(payload, wd))
        finally:
            shutil.rmtree(wd, ignore_errors=True)
        return rep.finish()
    return cluster.simple_replay(PID, path, seed)
