------------------------------- MODULE MC_LH4w -------------------------------
(* N = 4, weights 3,1,1,1 (W = 6, f = 1, Q = 5: every quorum contains n0), n1 Byzantine (it leads view 1). *)
EXTENDS MC_LeanHelix
cCom == <<"n0", "n1", "n2", "n3">>
cHdr == [com |-> <<cCom, cCom, cCom>>, w |-> [n0 |-> 3, n1 |-> 1, n2 |-> 1, n3 |-> 1], byz |-> <<"n1">>, nodes |-> <<"n0", "n2", "n3">>]
cBlocks == {"z", "X"}
=============================================================================
