------------------------------- MODULE MC_LH4b -------------------------------
(* N = 4, unit weights, n0 Byzantine: it leads view 0 (equivocating first proposal), the correct n1 leads view 1. *)
EXTENDS MC_LeanHelix
cCom == <<"n0", "n1", "n2", "n3">>
cHdr == [com |-> <<cCom, cCom, cCom>>, w |-> [n0 |-> 1, n1 |-> 1, n2 |-> 1, n3 |-> 1], byz |-> <<"n0">>, nodes |-> <<"n1", "n2", "n3">>]
cBlocks == {"z", "X"}
=============================================================================
