CONSTANTS Hmax = 3 MaxMsgs = 4 Fixed = FALSE
INIT Init
NEXT Next
INVARIANTS OwnHeightOnly Eligible AtMostOnce FifoPerHeight HandlerFollows
CHECK_DEADLOCK FALSE
