----------------------------- MODULE MC_LH4_sim -----------------------------
(* Behaviours of the node specification for replay into the real code (spec -> code direction): *)
(* TLC -simulate walks MC_LeanHelix; every visited state prints its event as one JSON line.     *)
EXTENDS MC_LH4, Json
EmitEvent == PrintT(<<"VERIF_EV", ToJson(ev)>>)
=============================================================================
