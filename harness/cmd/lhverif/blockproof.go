package main

// C02: ValidateBlockConsensus / GetMemberIdsFromBlockProof on systematically and randomly built
// proofs (every field deviated one at a time and in combination) and on malformed encodings.

import (
	"context"
	"flag"
	"fmt"
	"math/rand"

	leanhelix "github.com/orbs-network/lean-helix-go"
	"github.com/orbs-network/lean-helix-go/services/interfaces"
	"github.com/orbs-network/lean-helix-go/services/randomseed"
	"github.com/orbs-network/lean-helix-go/spec/types/go/primitives"
	"github.com/orbs-network/lean-helix-go/spec/types/go/protocol"
)

func init() { register("blockproof", cmdBlockProof) }

type bpSigner struct {
	idx    int    // member index, nMembers = outsider
	status string // ok | type | view | hash | inst | height | forged
}

type bpCase struct {
	weights  []uint64
	signers  []bpSigner
	ht       protocol.MessageType
	inst     primitives.InstanceId
	dh       int    // proof height = block height + dh
	hashMode string // match | other
	seed     string // ok | otherprev | absent | forged
	idShape  int    // shape of the member ids (cluster.go: clusterIdShape)
	prev     string // the previous proof handed to the call: "" (the one the seed signature was made for) | other | nil
	soft     bool
	block    string // match | otherhash | otherheight | nil
	mangle   string // "" | trunc | flip | random | empty
	mangleAt int
	excl     int // k > 0: member k-1 left the committee at the height of the block (its stand-in, id index n+1, took its place and weight)
}

func (c bpCase) desc() obj {
	sg := []obj{}
	for _, s := range c.signers {
		sg = append(sg, obj{"idx": s.idx, "status": s.status})
	}
	return obj{"weights": c.weights, "signers": sg, "ht": int(c.ht), "inst": int(c.inst), "dh": c.dh, "hash": c.hashMode, "seed": c.seed, "prev": c.prev, "idshape": c.idShape,
		"soft": c.soft, "block": c.block, "mangle": c.mangle, "at": c.mangleAt, "excl": c.excl}
}

const bpHeight = 5

var bpCounter int

func runBpCase(out *ndjson, c bpCase) {
	clusterIdShape = c.idShape
	cl := newCluster(c.weights, nil, 2, false)
	clusterIdShape = 0
	defer cl.close()
	adv := newAdversary(cl)
	for i := 0; i < cl.nMembers; i++ {
		cl.byz[i] = true // the case builder may sign as anybody: every member key is "held"
	}
	n := cl.nodes[0]
	body := "blk"
	cl.addBody(body)
	cl.addBody("other")
	block := &vBlock{height: bpHeight, body: body}
	prevBlock := &vBlock{height: bpHeight - 1, body: "prev"}
	prevRef := prevBlock.ReferenceTime()
	cl.prevRefGiven = &prevRef
	if c.excl > 0 {
		cl.exclIdx, cl.exclFrom = c.excl-1, bpHeight
	}
	prevProof := (&protocol.BlockProofBuilder{BlockRef: &protocol.BlockRefBuilder{MessageType: protocol.LEAN_HELIX_COMMIT, InstanceId: clusterInstance, BlockHeight: bpHeight - 1},
		RandomSeedSignature: []byte("prev-seed-signature")}).Build().Raw()
	otherPrev := (&protocol.BlockProofBuilder{BlockRef: &protocol.BlockRefBuilder{MessageType: protocol.LEAN_HELIX_COMMIT, InstanceId: clusterInstance, BlockHeight: bpHeight - 1},
		RandomSeedSignature: []byte("another-seed-signature")}).Build().Raw()
	seedOf := func(pp []byte) []byte {
		return randomseed.RandomSeedToBytes(randomseed.CalculateRandomSeed(protocol.BlockProofReader(pp).RandomSeedSignature()))
	}
	hash := hashOfBody(body)
	if c.hashMode == "other" {
		hash = hashOfBody("other")
	}
	rf := refD{ht: c.ht, inst: c.inst, h: uint64(bpHeight + c.dh), v: 3, hash: hash}
	rb := rf.builder()
	var nodes []*protocol.SenderSignatureBuilder
	for _, s := range c.signers {
		id := cl.ids[s.idx]
		signed := rf
		switch s.status {
		case "type":
			signed.ht = protocol.LEAN_HELIX_PREPARE
		case "view":
			signed.v = 4
		case "hash":
			signed.hash = hashOfBody("other")
		case "inst":
			signed.inst = c.inst + 1
		case "height":
			signed.h = rf.h + 1
		}
		var sig []byte
		if s.status == "forged" {
			sig = adv.forge()
		} else {
			sig = cl.ring.sign(id, signed.h, signed.builder().Build().Raw())
		}
		nodes = append(nodes, &protocol.SenderSignatureBuilder{MemberId: id, Signature: sig})
	}
	var seedSig []byte
	switch c.seed {
	case "ok":
		cl.ring.share(cl.ids[0], rf.h, seedOf(prevProof)) // registers the content
		seedSig = cl.ring.aggregateSig(rf.h, seedOf(prevProof))
	case "otherprev":
		seedSig = cl.ring.aggregateSig(rf.h, seedOf(otherPrev))
	case "forged":
		seedSig = adv.forge()
	}
	proof := (&protocol.BlockProofBuilder{BlockRef: rb, Nodes: nodes, RandomSeedSignature: seedSig}).Build().Raw()
	canon := true
	switch c.mangle {
	case "trunc":
		if len(proof) > 0 {
			proof = append([]byte{}, proof[:c.mangleAt%len(proof)]...)
		}
		canon = false
	case "flip":
		proof = append([]byte{}, proof...)
		if len(proof) > 0 {
			proof[c.mangleAt%len(proof)] ^= byte(1 << uint(c.mangleAt%8))
		}
		canon = false
	case "random":
		r := rand.New(rand.NewSource(int64(c.mangleAt)))
		proof = make([]byte, c.mangleAt%200)
		r.Read(proof)
		canon = false
	case "empty":
		proof = []byte{}
		canon = false
	}
	var blk interfaces.Block = block
	blkAbs := obj{"nil": false, "h": bpHeight, "x": body}
	switch c.block {
	case "otherhash":
		blk = &vBlock{height: bpHeight, body: "other"}
		blkAbs["x"] = "other"
	case "otherheight":
		blk = &vBlock{height: bpHeight + 1, body: body}
		blkAbs["h"] = bpHeight + 1
	case "nil":
		blk = nil
		blkAbs = obj{"nil": true, "h": 0, "x": "-"}
	}
	// the previous proof the caller hands in: the random seed the signature must verify against derives from THIS one, on
	// every call (the same signature may have been accepted a moment ago with another previous proof)
	givenPrev := prevProof
	switch c.prev {
	case "other":
		givenPrev = otherPrev
	case "nil":
		givenPrev = nil
	}
	if blk != nil {
		hGiven := uint64(blk.Height())
		cl.heightGiven = &hGiven
	}
	result := "err"
	func() {
		defer func() {
			if r := recover(); r != nil {
				result = "panic"
			}
		}()
		if n.worker.ValidateBlockConsensus(context.Background(), blk, proof, prevBlock, givenPrev, c.soft) == nil {
			result = "ok"
		}
	}()
	// every tenth case also goes through the public entry point of a running node (MainLoop.ValidateBlockConsensus)
	resultMain := ""
	bpCounter++
	if bpCounter%10 == 0 {
		resultMain = "err"
		func() {
			defer func() {
				if r := recover(); r != nil {
					resultMain = "panic"
				}
			}()
			m := cl.newNode(1)
			defer m.shutdown()
			cfg := &interfaces.Config{InstanceId: clusterInstance, Communication: m, Membership: m, BlockUtils: m,
				KeyManager: &nodeKeyManager{ring: cl.ring, me: m.id}, OverrideElectionTrigger: m}
			ml := leanhelix.NewLeanHelix(cfg, m.onCommit, m.onNewRound)
			ctx, cancel := context.WithCancel(context.Background())
			w := ml.Run(ctx)
			if ml.ValidateBlockConsensus(context.Background(), blk, proof, prevBlock, givenPrev, c.soft) == nil {
				resultMain = "ok"
			}
			cancel()
			w.WaitUntilShutdown(context.Background())
		}()
	}
	// ValidateBlockConsensus is a function of its arguments: the same call on a node that has just validated GENUINE proofs of this
	// height (every member's COMMIT signature for this block and for the other block, view 3 as in the case) must answer the same
	// (seeded change R08: signatures remembered per height and sender, not per signed content)
	resultWarm := "err"
	func() {
		defer func() {
			if r := recover(); r != nil {
				resultWarm = "panic"
			}
		}()
		wn := cl.nodes[1]
		savedH, savedWH, savedWE := cl.heightGiven, cl.wrongHeightAsked, cl.wrongEpochAsked
		cl.heightGiven = nil
		for _, wb := range []string{body, "other"} {
			wrf := refD{ht: protocol.LEAN_HELIX_COMMIT, inst: clusterInstance, h: bpHeight, v: 3, hash: hashOfBody(wb)}
			var wnodes []*protocol.SenderSignatureBuilder
			for i := 0; i < cl.nMembers; i++ {
				wnodes = append(wnodes, &protocol.SenderSignatureBuilder{MemberId: cl.ids[i], Signature: cl.ring.sign(cl.ids[i], wrf.h, wrf.builder().Build().Raw())})
			}
			cl.ring.share(cl.ids[0], wrf.h, seedOf(prevProof))
			wproof := (&protocol.BlockProofBuilder{BlockRef: wrf.builder(), Nodes: wnodes, RandomSeedSignature: cl.ring.aggregateSig(wrf.h, seedOf(prevProof))}).Build().Raw()
			wn.worker.ValidateBlockConsensus(context.Background(), &vBlock{height: bpHeight, body: wb}, wproof, prevBlock, prevProof, false)
		}
		cl.heightGiven = savedH
		if wn.worker.ValidateBlockConsensus(context.Background(), blk, proof, prevBlock, givenPrev, c.soft) == nil {
			resultWarm = "ok"
		}
		cl.wrongHeightAsked, cl.wrongEpochAsked = savedWH, savedWE
	}()
	ids := "ok"
	func() {
		defer func() {
			if r := recover(); r != nil {
				ids = "panic"
			}
		}()
		leanhelix.GetMemberIdsFromBlockProof(proof)
	}()
	// ground truth parse of the very bytes that were handed in
	pa := cl.blockProofAbs(proof)
	if !pa["bad"].(bool) {
		h := uint64(protocol.BlockProofReader(proof).BlockRef().BlockHeight())
		pa["seedok"] = string(protocol.BlockProofReader(proof).RandomSeedSignature()) == string(cl.ring.aggregateSig(h, seedOf(givenPrev)))
	} else {
		pa = obj{"bad": true, "ht": "?", "inst": 0, "h": 0, "x": "?", "signers": []obj{}, "seedok": false}
	}
	w := obj{}
	for i := 0; i < cl.nMembers; i++ {
		w[idName(i)] = int(cl.weights[i])
	}
	if c.excl > 0 && len(cl.ids) > cl.nMembers+1 {
		w[cl.nameOf(cl.ids[cl.nMembers+1])] = int(cl.weights[cl.exclIdx])
	}
	coms := [][]string{}
	for h := 0; h <= bpHeight+2; h++ {
		coms = append(coms, cl.committeeNames(uint64(h)))
	}
	mode := "strict"
	if c.soft {
		mode = "soft"
	}
	out.emit(obj{"com": coms, "w": w, "proof": pa, "blk": blkAbs, "mode": mode, "result": result, "result_main": resultMain, "result_warm": resultWarm, "ids": ids, "canon": canon, "wrong_epoch": cl.wrongEpochAsked, "wrong_height": cl.wrongHeightAsked, "case": c.desc()})
}

func cmdBlockProof(args []string) int {
	fs := flag.NewFlagSet("blockproof", flag.ExitOnError)
	outPath := fs.String("out", "blockproof.ndjson", "")
	seed := fs.Int64("seed", 1, "")
	nRand := fs.Int("rand", 1500, "")
	nMangle := fs.Int("mangle", 1500, "")
	replay := fs.String("replay", "", "")
	fs.Parse(args)
	rnd := newRand(*seed)
	out := newNdjson(*outPath)
	defer out.close()
	if *replay != "" {
		for _, e := range readNdjson(*replay) {
			runBpCase(out, caseFromDesc(e["case"].(map[string]interface{})))
		}
		fmt.Printf("lines=%d\n", out.n)
		return 0
	}
	grids := [][]uint64{{1, 1, 1, 1}, {1, 1, 2, 3}, {1, 1, 1, 1, 3}, {2, 2, 2, 2, 2, 2, 2}, {5, 1, 1, 1}, {0, 0, 0, 0}, {0, 1, 1, 1, 0}}
	statuses := []string{"type", "view", "hash", "inst", "height", "forged"}
	shapeOf := map[string]int{} // systematic part: the committees take turns in the three id shapes
	for g, ws := range grids {
		shapeOf[fmt.Sprint(ws)] = g % 3
	}
	base := func(ws []uint64, signers []int) bpCase {
		c := bpCase{weights: ws, ht: protocol.LEAN_HELIX_COMMIT, inst: clusterInstance, hashMode: "match", seed: "ok", block: "match", idShape: shapeOf[fmt.Sprint(ws)]}
		for _, i := range signers {
			c.signers = append(c.signers, bpSigner{i, "ok"})
		}
		return c
	}
	n := 0
	emit := func(c bpCase) { runBpCase(out, c); n++ }
	// systematic: every subset of members (small committees) x both modes, all genuine; then one deviation at a time
	for _, ws := range grids {
		nm := len(ws)
		for mask := 0; mask < 1<<uint(nm); mask++ {
			var sg []int
			for i := 0; i < nm; i++ {
				if mask&(1<<uint(i)) != 0 {
					sg = append(sg, i)
				}
			}
			for _, soft := range []bool{false, true} {
				c := base(ws, sg)
				c.soft = soft
				emit(c)
			}
			if mask == 0 { // signed by an outsider alone (a member of some other epoch's committee)
				for _, soft := range []bool{false, true} {
					c := base(ws, nil)
					c.signers = []bpSigner{{nm, "ok"}}
					c.soft = soft
					emit(c)
				}
			}
			if nm > 5 && mask%5 != 0 {
				continue
			}
			full := base(ws, sg)
			// duplicates and outsiders
			if len(sg) > 0 {
				c := full
				c.signers = append(append([]bpSigner{}, full.signers...), bpSigner{sg[0], "ok"})
				emit(c)
				c = full
				c.signers = append(append([]bpSigner{}, full.signers...), bpSigner{nm, "ok"})
				emit(c)
				for _, st := range statuses {
					c = full
					c.signers = append([]bpSigner{}, full.signers...)
					c.signers[len(c.signers)-1].status = st
					emit(c)
				}
			}
			for _, f := range []func(c *bpCase){
				func(c *bpCase) { c.ht = protocol.LEAN_HELIX_PREPARE },
				func(c *bpCase) { c.ht = protocol.LEAN_HELIX_PREPREPARE },
				func(c *bpCase) { c.inst = clusterInstance + 1 },
				func(c *bpCase) { c.dh = 1 },
				func(c *bpCase) { c.hashMode = "other" },
				func(c *bpCase) { c.seed = "otherprev" },
				func(c *bpCase) { c.seed = "absent" },
				func(c *bpCase) { c.seed = "forged" },
				func(c *bpCase) { c.prev = "other" },
				func(c *bpCase) { c.prev = "nil" },
				func(c *bpCase) { c.prev = "other"; c.seed = "otherprev" }, // consistent again: acceptable
				func(c *bpCase) { c.block = "otherhash" },
				func(c *bpCase) { c.block = "otherheight" },
				func(c *bpCase) { c.block = "nil" },
				func(c *bpCase) { c.hashMode = "other"; c.block = "otherhash" },
				func(c *bpCase) { c.dh = 1; c.block = "otherheight" },
			} {
				c := full
				c.signers = append([]bpSigner{}, full.signers...)
				f(&c)
				emit(c)
			}
		}
	}
	// membership change at the height of the block: member k left, its stand-in (id index n+1) took its place and weight; every
	// subset of the old and the new members signs (the leaver's genuine signature is not a member's signature any more)
	for _, ws := range grids[:5] {
		nm := len(ws)
		if nm > 5 {
			continue
		}
		for k := 1; k <= nm; k++ {
			for mask := 0; mask < 1<<uint(nm+1); mask++ {
				var sg []int
				for i := 0; i <= nm; i++ {
					if mask&(1<<uint(i)) != 0 {
						if i == nm {
							sg = append(sg, nm+1)
						} else {
							sg = append(sg, i)
						}
					}
				}
				for _, soft := range []bool{false, true} {
					c := base(ws, sg)
					c.excl = k
					c.soft = soft
					emit(c)
				}
			}
		}
	}
	// random combinations of deviations
	for i := 0; i < *nRand; i++ {
		ws := grids[rnd.Intn(len(grids))]
		nm := len(ws)
		c := bpCase{weights: ws, ht: protocol.LEAN_HELIX_COMMIT, inst: clusterInstance, hashMode: "match", seed: "ok", block: "match", soft: rnd.Intn(2) == 0, idShape: rnd.Intn(3)}
		for j := 0; j < nm; j++ {
			if rnd.Intn(4) != 0 {
				st := "ok"
				if rnd.Intn(6) == 0 {
					st = statuses[rnd.Intn(len(statuses))]
				}
				c.signers = append(c.signers, bpSigner{j, st})
			}
		}
		if rnd.Intn(5) == 0 {
			c.signers = append(c.signers, bpSigner{nm, "ok"})
		}
		if rnd.Intn(6) == 0 && len(c.signers) > 0 {
			c.signers = append(c.signers, c.signers[rnd.Intn(len(c.signers))])
		}
		rnd.Shuffle(len(c.signers), func(a, b int) { c.signers[a], c.signers[b] = c.signers[b], c.signers[a] })
		if rnd.Intn(6) == 0 {
			c.ht = []protocol.MessageType{protocol.LEAN_HELIX_PREPARE, protocol.LEAN_HELIX_PREPREPARE, protocol.LEAN_HELIX_NEW_VIEW, 0, 9}[rnd.Intn(5)]
		}
		if rnd.Intn(8) == 0 {
			c.inst++
		}
		if rnd.Intn(8) == 0 {
			c.dh = 1
		}
		if rnd.Intn(8) == 0 {
			c.hashMode = "other"
		}
		if rnd.Intn(5) == 0 {
			c.seed = []string{"otherprev", "absent", "forged"}[rnd.Intn(3)]
		}
		if rnd.Intn(6) == 0 {
			c.block = []string{"otherhash", "otherheight", "nil"}[rnd.Intn(3)]
		}
		if rnd.Intn(6) == 0 {
			c.prev = []string{"other", "nil"}[rnd.Intn(2)]
		}
		if rnd.Intn(4) == 0 {
			c.excl = 1 + rnd.Intn(nm)
			if rnd.Intn(2) == 0 {
				c.signers = append(c.signers, bpSigner{nm + 1, "ok"})
			}
		}
		emit(c)
	}
	// malformed encodings of an otherwise acceptable proof
	for i := 0; i < *nMangle; i++ {
		ws := grids[rnd.Intn(2)]
		c := base(ws, []int{0, 1, 2, 3})
		c.soft = rnd.Intn(2) == 0
		c.mangle = []string{"trunc", "trunc", "flip", "flip", "random", "empty"}[rnd.Intn(6)]
		c.mangleAt = rnd.Intn(100000)
		emit(c)
	}
	fmt.Printf("lines=%d\n", out.n)
	return 0
}

func caseFromDesc(d map[string]interface{}) bpCase {
	c := bpCase{ht: protocol.MessageType(int(d["ht"].(float64))), inst: primitives.InstanceId(int(d["inst"].(float64))), dh: int(d["dh"].(float64)),
		hashMode: d["hash"].(string), seed: d["seed"].(string), prev: strOr(d["prev"]), idShape: intOr(d["idshape"]), soft: d["soft"].(bool), block: d["block"].(string), mangle: d["mangle"].(string), mangleAt: int(d["at"].(float64)), excl: intOr(d["excl"])}
	for _, w := range d["weights"].([]interface{}) {
		c.weights = append(c.weights, uint64(w.(float64)))
	}
	for _, s := range d["signers"].([]interface{}) {
		m := s.(map[string]interface{})
		c.signers = append(c.signers, bpSigner{int(m["idx"].(float64)), m["status"].(string)})
	}
	return c
}

func strOr(v interface{}) string {
	if s, ok := v.(string); ok {
		return s
	}
	return ""
}

func intOr(v interface{}) int {
	if f, ok := v.(float64); ok {
		return int(f)
	}
	return 0
}
