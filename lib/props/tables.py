"""P4 helper: a harness subcommand writes one ndjson line per call of a real function; a Trace_*.tla
spec recomputes the expected answer from the specification and prints <<"VERIF_BAD", tag, l>> for
every line/tag where the real answer differs.  All bad lines are collected (not just the first), so a
known finding never hides a different violation of the same property."""
import json, os, shutil
import vlib


def validate(rep, trace_path, module, cfg, workdir, timeout=900, workers=1, env_extra=None):
    lines = vlib.read_ndjson(trace_path)
    env = {"VERIF_TRACE": trace_path}
    env.update(env_extra or {})
    r = vlib.tlc(module, cfg, workdir=workdir, workers=workers, timeout=timeout, env_extra=env)
    if r.error:
        raise vlib.Inconclusive("%s: %s" % (module, r.error))
    if r.violated:
        raise vlib.Inconclusive("%s: TLC stopped on %s (trace specs report through VERIF_BAD)" % (module, r.violated))
    if r.distinct < len(lines):
        raise vlib.Inconclusive("%s consumed %d of %d lines" % (module, r.distinct, len(lines)))
    rep.add_tlc(r, "trace validation %s (%d lines from the real code)" % (module, len(lines)))
    rep.traces += len(lines)
    rep.evaluations += len(lines)
    bad = {}
    for t in r.bad:
        tag, l = t[0], t[1]
        bad.setdefault(l, []).append(tag)
    return lines, bad


def run_table(rep, pid, cmd, gen_args, module, cfg, classify, replay_in=None, sample_keys=None, distinct_key=None,
              timeout=900, tag_filter=None):
    """Generate (or recompute, for a replay) lines with harness subcommand `cmd`, validate with TLC, turn
    bad lines into known findings / violations.  classify(line, tags) -> (signature dict, text)."""
    wd = vlib.scratch_dir(pid.lower())
    try:
        trace = os.path.join(wd, cmd + ".ndjson")
        if replay_in is None:
            vlib.run_harness([cmd, "-out", trace] + gen_args, cwd=wd)
        else:
            vlib.run_harness([cmd, "-out", trace, "-replay", replay_in], cwd=wd)
        lines, bad = validate(rep, trace, module, cfg, wd, timeout=timeout)
        for e in lines[:3]:
            rep.sample({k: e[k] for k in (sample_keys or e.keys()) if k in e})
        for e in lines:
            rep.distinct.add(json.dumps(distinct_key(e) if distinct_key else e, sort_keys=True))
        seen = set()
        for l in sorted(bad):
            line = lines[l - 1]
            tags = sorted(set(bad[l]))
            if tag_filter:
                tags = [t for t in tags if tag_filter(t)]
                if not tags:
                    continue
            if all(t.startswith("drift_") for t in tags):
                rep.drift.append("%s at line %d" % (",".join(tags), l))
                continue
            sig, text = classify(line, [t for t in tags if not t.startswith("drift_")])
            k = vlib.known_match(pid, sig)
            if k:
                if k["id"] not in seen:
                    seen.add(k["id"])
                    rep.known.append("%s: %s" % (k["id"], k["what"]))
                continue
            key = json.dumps(sig, sort_keys=True)
            if key in seen:
                continue
            seen.add(key)
            if rep.replay_of:
                path = rep.replay_of
            else:
                path = vlib.save_replay(pid, "%s_line%d_seed%d" % (cmd, l, rep.seed),
                                        {"property": pid, "kind": cmd + "-line", "line": line, "failed": sig, "seed": rep.seed})
            rep.violation(path, text)
        rep.extra.setdefault("bad_lines", 0)
        rep.extra["bad_lines"] += len(bad)
        return lines, bad
    finally:
        shutil.rmtree(wd, ignore_errors=True)


def replay_line(payload, wd):
    src = os.path.join(wd, "in.ndjson")
    with open(src, "w") as f:
        f.write(json.dumps(payload["line"]) + "\n")
    return src


def big(l):
    v = 0
    for d in l:
        v = v * 32768 + d
    return v
