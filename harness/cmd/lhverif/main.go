// lhverif: Go side of the TLA+-based verification harness for lean-helix-go.
// Every subcommand drives real code of /repo and writes ndjson lines that a TLA+ trace
// specification under /verif/spec validates with TLC (or replays behaviours TLC produced).
package main

import (
	"fmt"
	"os"
)

var commands = map[string]func(args []string) int{}

func register(name string, f func(args []string) int) { commands[name] = f }

func main() {
	if len(os.Args) < 2 {
		fmt.Fprintln(os.Stderr, "usage: lhverif <command> [flags]")
		os.Exit(2)
	}
	f, ok := commands[os.Args[1]]
	if !ok {
		fmt.Fprintf(os.Stderr, "unknown command %q\n", os.Args[1])
		os.Exit(2)
	}
	os.Exit(f(os.Args[2:]))
}
