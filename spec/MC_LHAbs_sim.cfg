CONSTANTS N = 4 MaxView = 4 NBlocks = 2 Byz <- ByzOne Dev <- NoDev W <- W4
INIT Init
NEXT Next
INVARIANTS Agreement IndInv
CHECK_DEADLOCK FALSE
