#!/usr/bin/env python3
"""Regenerates /verif/MANIFEST.json from the table below (one place to keep it valid)."""
import json, os, subprocess

ROOT = os.path.dirname(os.path.dirname(os.path.abspath(__file__)))
ALL = ["C%02d" % i for i in range(1, 21)]

# pid -> (category, technique, text, note, design_ref)
CHECKS = {
    "C06": ("model_checking",
            "TLC: Quorum.tla laws on every small weight vector + TLC validation of recorded calls of the real quorum functions (BigNat limbs for 64-bit totals)",
            "Design level: TLC checks the five laws (intersection > f, quorum has honest, attainable, monotone, no free weight) on "
            "every weight vector of up to 5 members with weights 0..6 and all subset pairs. Code level: every call of the real "
            "CalcQuorumWeight / CalcByzMaxWeight / IsQuorum / HasHonest made by the harness (small, boundary totals around 2^53, 2^63, "
            "2^64-1, multiples of 3, random 64-bit) is written as a trace line and TLC recomputes f, Q, the subset weight and the laws "
            "from the specification's definitions. Unit tests cannot reach this because the interesting totals are above 2^53.",
            "Trusted: BigNat.tla limb arithmetic, the harness's encoding of inputs/outputs; totals are assumed to fit 64 bits as the property says.",
            "DESIGN.md 5 C06"),
    "C15": ("model_checking",
            "TLC: ViewContexts.tla complete state graph + TLC validation of tree traces (all call sequences up to a depth, random long ones) recorded from the real state.ViewContexts",
            "Registry laws (never hand out a context for a superseded position, cancel exactly the older ones, release everything on "
            "shutdown, no resurrection) are invariants / action properties of ViewContexts.tla checked on its complete state graph for "
            "2x3 (quick) and 3x4 (thorough) positions, so every call order over those ranges is covered at the design level. The real "
            "registry is then driven through every call sequence up to depth 4 (quick) / 5 (thorough) plus random sequences; each call's "
            "result and the Err() of every context handed out so far are judged by TLC against the same step functions.",
            "Trusted: the harness's observation of contexts (Err() of the most recently issued context per position). The runtime part (SPI contexts on election/sync/shutdown) is added by the runtime checks when built.",
            "DESIGN.md 5 C15"),
    "C18": ("model_checking",
            "TLC: Leader.tla round-robin law for sizes 4..64 + TLC validation (BigNat modulo) of the real leader function and of the real leader predicate tabulated over 64-bit views",
            "The leader function is a pure function of (view, committee); TLC checks the round-robin law of the specification for every "
            "size 4..64 and validates every recorded call of the real function (dense 0..4n, powers of two +-1, neighbourhoods of 2^31, "
            "2^32, 2^63, 2^64-1, random 64-bit views; runs of n consecutive views including across 2^63 and the 2^64 wrap) against v mod n. Three sites are tabulated per (n, view): the package-level function, the leader a term computes (VIEW_CHANGE destination, proof validation) and the set of members the term's isLeader predicate (applied to senders of PREPREPARE/PREPARE/NEW_VIEW) recognises - it must be exactly {v mod n}.",
            "Trusted: VerifLeaderOf / VerifLeaderOfTerm / VerifIsLeader accessors (call the unexported functions the term uses, on a term holding only the committee), BigNat.tla. All correct nodes compute the same leader because the function is deterministic in (view, ordered committee); behaviour-level acceptance by view is exercised by the cluster checks.",
            "DESIGN.md 5 C18"),
    "C19": ("model_checking",
            "TLC: Timer.tla trigger state machine model checked (safety + liveness) + TLC validation of traces of the real TimerBasedElectionTrigger (Trace_Timer.tla) + TLC validation of recorded CalcTimeout values (Timeout.tla/BigNat)",
            "Formula part: every recorded CalcTimeout(base, v) of the real trigger (views 0..200, boundary classes up to 2^64-1, bases 1ns..2^63-1) "
            "is checked by TLC to be positive, equal to base*2^v whenever that fits a Duration, and not smaller than the value for a lower view. "
            "Machine part: Timer.tla (per-arming generations: armed/fired/sent/abandoned/stopped, the two selects of the firing goroutine) is model checked exhaustively; the real trigger runs under a randomised driver "
            "(register/stop/sleep, prompt/slow/absent reader) and TLC requires for every received trigger an unused arming of exactly that pair at least base*2^view old, at most one trigger per arming, and delivery of a final fresh registration.",
            "Trusted: BigNat.tla; the saturation value itself is not pinned (any positive monotone value is accepted once base*2^v exceeds int64).",
            "DESIGN.md 5 C19"),
    "C01": ("model_checking", 'TLC trace validation (Trace_Cluster.tla over LHNode.tla/LHMessages.tla) of executions of N real nodes under a random adversarial scheduler and directed attack schedules; per-property step formulas', 'Every commit callback of every correct node in every recorded execution is checked by TLC against the chain of first commits per height (c01_fork). Executions: directed attack schedules (lock then Byzantine NEW_VIEW / standalone PREPREPARE / two elections / unauthenticated votes...) and random adversarial schedules (drops, duplicates, reordering, timeouts, ~200 Byzantine message templates incl. equivocation, forged/unsigned/replayed parts, cross-type and cross-view replays, any view/height) on real nodes; each step also conformance-checked against the specification. A fork explained by the known finding H2 (standalone PREPREPARE) is reported as KNOWN-FINDING, any other fork is a violation.', 'Trusted: the harness (HMAC keyring as ground truth for signatures, projection of messages/state, fake SPIs), the verif-tagged gate hook that steps the real WorkerLoop.Run one iteration at a time; coverage is sampled (random adversarial schedules on committees of 4..7 with weights, Byzantine weight <= f, plus directed schedules), not exhaustive. Design-level model checking of LHNode.tla composed with an adversary is added by the MC configs when present.', "DESIGN.md 5 C01"),
    "C03": ("model_checking", 'TLC trace validation (Trace_Cluster.tla over LHNode.tla/LHMessages.tla) of executions of N real nodes under a random adversarial scheduler and directed attack schedules; per-property step formulas', 'At every commit callback the harness re-validates (block, proof) with strict ValidateBlockConsensus on a different correct node and TLC re-evaluates the certificate from its abstract form (distinct member signers with valid COMMIT signatures over this instance/height/hash, quorum weight, seed signature) - c03_committed_pair_rejected.', 'Trusted: the harness (HMAC keyring as ground truth for signatures, projection of messages/state, fake SPIs), the verif-tagged gate hook that steps the real WorkerLoop.Run one iteration at a time; coverage is sampled (random adversarial schedules on committees of 4..7 with weights, Byzantine weight <= f, plus directed schedules), not exhaustive. Design-level model checking of LHNode.tla composed with an adversary is added by the MC configs when present.', "DESIGN.md 5 C03"),
    "C04": ("model_checking", 'TLC trace validation (Trace_Cluster.tla over LHNode.tla/LHMessages.tla) of executions of N real nodes under a random adversarial scheduler and directed attack schedules; per-property step formulas', 'TLC keeps the set of (height, block) pairs approved by ValidateBlockProposal on some correct node and requires every committed block to be in it (c04_unvalidated_block_committed); Byzantine leaders propose consumer-rejected blocks (prefix X / Y<k>) in view 0 and inside NEW_VIEW, with and without proofs.', 'Trusted: the harness (HMAC keyring as ground truth for signatures, projection of messages/state, fake SPIs), the verif-tagged gate hook that steps the real WorkerLoop.Run one iteration at a time; coverage is sampled (random adversarial schedules on committees of 4..7 with weights, Byzantine weight <= f, plus directed schedules), not exhaustive. Design-level model checking of LHNode.tla composed with an adversary is added by the MC configs when present.', "DESIGN.md 5 C04"),
    "C07": ("model_checking", 'TLC trace validation (Trace_Cluster.tla over LHNode.tla/LHMessages.tla) of executions of N real nodes under a random adversarial scheduler and directed attack schedules; per-property step formulas', "Step formulas: a node stores a proposal / sends PREPARE for a view > 0 only in an event that delivers a NEW_VIEW satisfying ValidNewView (LHMessages.tla: leader-signed, authentic votes of distinct members of quorum weight, proposal = block of the highest valid proof or a consumer-validated fresh block); a NEW_VIEW sent by a correct node must itself satisfy the vote-set and lock rule. The standalone-PREPREPARE acceptance pinned by the repository's own test is the known finding H2.", 'Trusted: the harness (HMAC keyring as ground truth for signatures, projection of messages/state, fake SPIs), the verif-tagged gate hook that steps the real WorkerLoop.Run one iteration at a time; coverage is sampled (random adversarial schedules on committees of 4..7 with weights, Byzantine weight <= f, plus directed schedules), not exhaustive. Design-level model checking of LHNode.tla composed with an adversary is added by the MC configs when present.', "DESIGN.md 5 C07"),
    "C08": ("model_checking", 'TLC trace validation (Trace_Cluster.tla over LHNode.tla/LHMessages.tla) of executions of N real nodes under a random adversarial scheduler and directed attack schedules; per-property step formulas', "Step formula: a delivered PREPREPARE/PREPARE/COMMIT/VIEW_CHANGE that changes the node's projected state or triggers a send must satisfy AuthenticFor (valid signature of a committee member, this instance and height, header type = container, role: leader / non-leader / addressed leader / valid share, view not stale, valid prepared proof); stale or foreign NEW_VIEW must have no effect; after a round start every stored message must be explained by an authentic message the reference filter would have cached.", 'Trusted: the harness (HMAC keyring as ground truth for signatures, projection of messages/state, fake SPIs), the verif-tagged gate hook that steps the real WorkerLoop.Run one iteration at a time; coverage is sampled (random adversarial schedules on committees of 4..7 with weights, Byzantine weight <= f, plus directed schedules), not exhaustive. Design-level model checking of LHNode.tla composed with an adversary is added by the MC configs when present.', "DESIGN.md 5 C08"),
    "C09": ("model_checking", 'TLC trace validation (Trace_Cluster.tla over LHNode.tla/LHMessages.tla) of executions of N real nodes under a random adversarial scheduler and directed attack schedules; per-property step formulas', "Step formulas on every VIEW_CHANGE and NEW_VIEW a real node emits: a prepared node's vote carries a valid proof of exactly its prepared view, the stored proposal's hash and block; a NEW_VIEW embeds exactly the stored votes and re-proposes the block of the highest proof (fresh proposal only if no vote has a proof).", 'Trusted: the harness (HMAC keyring as ground truth for signatures, projection of messages/state, fake SPIs), the verif-tagged gate hook that steps the real WorkerLoop.Run one iteration at a time; coverage is sampled (random adversarial schedules on committees of 4..7 with weights, Byzantine weight <= f, plus directed schedules), not exhaustive. Design-level model checking of LHNode.tla composed with an adversary is added by the MC configs when present.', "DESIGN.md 5 C09"),
    "C10": ("model_checking", 'TLC trace validation (Trace_Cluster.tla over LHNode.tla/LHMessages.tla) of executions of N real nodes under a random adversarial scheduler and directed attack schedules; per-property step formulas', "History formulas over each node's sent stream: one proposal / PREPARE / COMMIT hash per (height, view), PREPARE only for the stored proposal and never as leader, COMMIT only with a prepared certificate or commit quorum in the node's storage at that moment, VIEW_CHANGE views strictly increasing, nothing proposed/prepared below the current view.", 'Trusted: the harness (HMAC keyring as ground truth for signatures, projection of messages/state, fake SPIs), the verif-tagged gate hook that steps the real WorkerLoop.Run one iteration at a time; coverage is sampled (random adversarial schedules on committees of 4..7 with weights, Byzantine weight <= f, plus directed schedules), not exhaustive. Design-level model checking of LHNode.tla composed with an adversary is added by the MC configs when present.', "DESIGN.md 5 C10"),
    "C11": ("model_checking", 'TLC trace validation (Trace_Cluster.tla over LHNode.tla/LHMessages.tla) of executions of N real nodes under a random adversarial scheduler and directed attack schedules; per-property step formulas', 'Whenever the schedule delivers a genuine message of a correct node to a correct peer that satisfies the stated precondition (same height, view not higher, no proposal yet, addressed leader...), TLC requires the effect (adoption / vote stored / PREPARE or COMMIT stored). Adversary templates poison producers (outsider PREPARE in proofs, cross-typed headers, stripped blocks).', 'Trusted: the harness (HMAC keyring as ground truth for signatures, projection of messages/state, fake SPIs), the verif-tagged gate hook that steps the real WorkerLoop.Run one iteration at a time; coverage is sampled (random adversarial schedules on committees of 4..7 with weights, Byzantine weight <= f, plus directed schedules), not exhaustive. Design-level model checking of LHNode.tla composed with an adversary is added by the MC configs when present.', "DESIGN.md 5 C11"),
    "C12": ("model_checking", 'TLC trace validation (Trace_Cluster.tla over LHNode.tla/LHMessages.tla) of executions of N real nodes under a random adversarial scheduler and directed attack schedules; per-property step formulas', 'Cluster part: garbage, truncated, bit-flipped content and well-formed messages with extreme views/heights (2^31, 2^32, 2^63, 2^64-1), empty ids etc. are injected at random points of runs of real nodes; TLC requires that no step panics, that unparseable content changes nothing, and the rest of the run still conforms (and commits). Runtime part (Trace_Runtime.tla on the real MainLoop/WorkerLoop): no loop restart after a recovered panic, HandleConsensusMessage never blocks - also when more messages than the worker inbox holds arrive while the worker sits in a consumer call - and the node still commits afterwards; ValidateBlockConsensus and GetMemberIdsFromBlockProof on built, mutated, truncated and random proofs never panic (Trace_BlockProof.tla).', 'Trusted: the harness (HMAC keyring as ground truth for signatures, projection of messages/state, fake SPIs), the verif-tagged gate hook that steps the real WorkerLoop.Run one iteration at a time; coverage is sampled (random adversarial schedules on committees of 4..7 with weights, Byzantine weight <= f, plus directed schedules), not exhaustive. Design-level model checking of LHNode.tla composed with an adversary is added by the MC configs when present.', "DESIGN.md 5 C12"),
    "C17": ("model_checking",
            "TLC: Filter.tla complete state graph with delivery history + TLC validation of tree traces of the real RawMessageFilter (all operation sequences up to a depth, random ones) + in-situ check on real WorkerLoops (Trace_Cluster c17 tag)",
            "Filter.tla models the height filter, the one-height future cache and the worker's re-entrant drain (a delivery may commit and start the next round inside the drain); TLC checks own-height-only, eligibility, at-most-once and FIFO on its complete state graph (heights 0..3, 4 messages quick; 0..4, 5 messages thorough). The real RawMessageFilter + state.State are driven through every operation sequence up to depth 3 (quick) / 4 (thorough) and random sequences with a handler that commits on demand; TLC judges every operation. In situ: every Store* call of every real node in the cluster runs must be for the height of the term that made it.",
            "Trusted: harness glue around the filter mirrors WorkerLoop.onNewConsensusRound; guaranteed delivery is read as 'no accepted-for-caching message above H before the node starts H' (the cache keeps one height).",
            "DESIGN.md 5 C17"),
    "C02": ("model_checking",
            "TLC validation (Trace_BlockProof.tla / BlockProof.tla) of calls of the real ValidateBlockConsensus and GetMemberIdsFromBlockProof on systematically built and malformed proofs",
            "BlockProof.tla states when a (block, proof) pair is acceptable in strict and soft mode. The harness builds real proof bytes for every signer subset of seven weighted committees (two with zero-weight members, one weightless) with every field deviated one at a time and in random combinations (signer status other type/view/hash/instance/height/forged, duplicates, outsiders, header type/instance/height/hash, seed ok/other previous proof/absent/forged, block matching/other hash/other height/nil) plus truncations, bit flips, random and empty bytes; TLC checks accepted => valid on the harness's own parse (ground-truth signatures) of the very bytes passed in, and that neither entry point panics.",
            "Trusted: harness keyring and parse (protocol readers) for ground truth; the property is one-directional (valid => accepted is only reported as drift).",
            "DESIGN.md 5 C02"),
    "C13": ("model_checking", 'TLC: Runtime.tla (main loop, worker loop, channels, contexts, timer, blocking SPI calls) model checked exhaustively incl. liveness + TLC validation (Trace_Runtime.tla) of event traces of the real MainLoop/WorkerLoop under a randomised gating driver',
            "Runtime.tla: commit-callback heights and new-round heights strictly increase, (height, view) never decreases with view reset on height increase, rounds after a commit are above it - invariants / action properties checked on the complete state graph (2 heights x 2 views x 2 syncs quick; 2x3x3 thorough, 1.2 M states). Real runtime: the same requirements evaluated by TLC on every event of recorded runs (failing commit callbacks, syncs with older/equal/newer heights, elections, traffic in random order), State() observed by a periodic sampler and by two goroutines reading it back to back (a (height, view) pair that never was the state shows as a step backwards), with a churn phase of heights closing in views above 0.",
            'Trusted: the harness driver and fake SPIs, the verif event hooks (add-only one-liners in mainloop.go / workerloop.go), the global sequence numbering of events; real-time bounds measured on this machine; interleavings are sampled by a randomised driver (plus worst-case consumer behaviour), not enumerated on the code - enumeration is done on Runtime.tla.', "DESIGN.md 5 C13"),
    "C14": ("model_checking", 'TLC: Runtime.tla (main loop, worker loop, channels, contexts, timer, blocking SPI calls) model checked exhaustively incl. liveness + TLC validation (Trace_Runtime.tla) of event traces of the real MainLoop/WorkerLoop under a randomised gating driver',
            "Runtime.tla: an accepted sync leads to a height above it (liveness under weak fairness), the single-slot hand-off and max-height filter are modelled literally. Real runtime: after every burst of UpdateState calls the node must get above the highest accepted block by itself even when the worker sits in an SPI call that waits for its context only; rounds entered by sync above height 1 must not act as first leader (callback flag and no view-0 proposal); UpdateState must return within the bound while the loops run.",
            'Trusted: the harness driver and fake SPIs, the verif event hooks (add-only one-liners in mainloop.go / workerloop.go), the global sequence numbering of events; real-time bounds measured on this machine; interleavings are sampled by a randomised driver (plus worst-case consumer behaviour), not enumerated on the code - enumeration is done on Runtime.tla.', "DESIGN.md 5 C14"),
    "C16": ("model_checking", 'TLC: Runtime.tla (main loop, worker loop, channels, contexts, timer, blocking SPI calls) model checked exhaustively incl. liveness + TLC validation (Trace_Runtime.tla) of event traces of the real MainLoop/WorkerLoop under a randomised gating driver',
            "Runtime.tla: cancelled ~> both loops dead, nothing happens afterwards, timer stopped (liveness + action properties, exhaustive). Real runtime: cancellation injected at a random point of a third of the runs (idle, inside blocking SPI calls, during election/sync, with the real timer armed in half of the runs, SPI calls lingering after cancellation); WaitUntilShutdown must return within the bound, no callback/send/SPI/loop event may follow, API calls with the cancelled context must return, and no goroutine with a frame of the library may survive (5 s grace), the election scheduler must have been stopped; in some runs the cancellation comes from inside a consumer block whose Height() then panics on the main-loop goroutine.",
            'Trusted: the harness driver and fake SPIs, the verif event hooks (add-only one-liners in mainloop.go / workerloop.go), the global sequence numbering of events; real-time bounds measured on this machine; interleavings are sampled by a randomised driver (plus worst-case consumer behaviour), not enumerated on the code - enumeration is done on Runtime.tla.', "DESIGN.md 5 C16"),
    "C20": ("model_checking",
            "TLC: Wire.tla shape grammar enumerated + TLC validation (Trace_Wire.tla) of round trips of messages built by the real MessageFactory, compared against the factory inputs",
            "TLC enumerates the 70 message shapes of the grammar (type x block x proof x prepare senders x votes x votes with proof); for each the harness draws field values (64-bit classes, lengths 0/1/32/255/256 and random), builds the message with the real factory, converts to raw and parses back twice; TLC checks the full accessor dump is unchanged, parsing is deterministic, every signature that verified still verifies, and that nested proofs/votes equal the PREPREPARE/PREPARE/VIEW_CHANGE messages that went into the factory; same for block proofs generated from up to 20 commit messages.",
            "Trusted: the generated readers' accessors (bytes no accessor exposes are invisible), PRF key manager producing arbitrary-length signatures.",
            "DESIGN.md 5 C20"),
    "C05": ("model_checking",
            "TLC trace validation (Trace_Cluster.tla, C05 verdict formulas + conformance with LHNode.tla) of real nodes run through an adversarial asynchronous prefix followed by a timely fair schedule on a simulated clock",
            "Real nodes (committees of 4..7, weights, Byzantine weight <= f, crashed correct members while the live ones keep quorum weight) go through a random adversarial prefix or a directed schedule of the attack library (in full or cut at a random step), are brought to one height, then the harness runs the timely fair schedule: all messages among live correct nodes delivered (global FIFO, FIFO per link, or any order, by run) before any timer, timers 2^view on a simulated clock with arbitrary phases, earliest deadline first, Byzantine members still injecting. TLC validates every step against the node specification and the verdict: the deciding height is committed within a bound of timer rounds and every live acceptor of the committing view's post-stabilisation proposal commits.",
            "Trusted: the timing model (zero message delay relative to timers), the heuristic bound standing in for 'eventually' (2x the analytic bound + 10; measured worst case 0.82 of the analytic bound), harness as for the protocol family. No TLC liveness proof of the node specification is claimed yet.",
            "DESIGN.md 5 C05"),
}

PENDING_REASON = "check not built yet in this round; planned per DESIGN.md section 5 (no claim is made until a sound check exists)"


def main():
    hooks_commits = []
    try:
        out = subprocess.run(["git", "-C", "/repo", "log", "--format=%h %s"], stdout=subprocess.PIPE, text=True).stdout
        hooks_commits = [l.split()[0] for l in out.splitlines() if l.split(" ", 1)[1].startswith("verif:")]
    except Exception:
        pass
    m = {
        "version": 1,
        "setup_cmd": "cd /verif && bin/setup",
        "hooks": {
            "guard": "verif",
            "enable": "go build -tags verif (the harness module /verif/harness replaces github.com/orbs-network/lean-helix-go with /repo)",
            "baseline_off_cmd": "cd /repo && GOFLAGS=-mod=mod GOPROXY=off GOSUMDB=off go test -json -vet=off -count=1 -timeout 25m ./...",
            "source_commits": hooks_commits,
            "add_only": True,
        },
        "engines": [
            {"name": "tlc", "path": "/opt/veriftools/tla/tla2tools.jar", "serves_properties": sorted(CHECKS),
             "kind_free_text": "TLC model checker: state graphs of /verif/spec/*.tla and validation of traces recorded from the real code"},
            {"name": "lhverif", "path": "/verif/harness", "serves_properties": sorted(CHECKS),
             "kind_free_text": "Go harness driving the real packages of /repo; writes ndjson traces, replays TLC behaviours"},
        ],
        "checks": [],
        "not_applicable": [],
        "notes": "All verdicts come from TLA+ formulas evaluated by TLC on state graphs of the specifications or on traces recorded from the real code; see DESIGN.md.",
    }
    for pid in ALL:
        if pid in CHECKS:
            cat, tech, text, note, ref = CHECKS[pid]
            m["checks"].append({
                "property_id": pid,
                "quick_cmd": "bin/check %s --tier quick" % pid,
                "thorough_cmd": "bin/check %s --tier thorough" % pid,
                "evidence_file": "/verif/evidence/%s.json" % pid,
                "replay_cmd_template": "bin/check %s --replay {path}" % pid,
                "engine": "tlc",
                "level_claimed": {"category": cat, "text": text, "design_ref": ref},
                "level_note": note,
                "technique": tech,
            })
        else:
            m["not_applicable"].append({"property_id": pid, "reason": PENDING_REASON})
    with open(os.path.join(ROOT, "MANIFEST.json"), "w") as f:
        json.dump(m, f, indent=1)
    print("MANIFEST.json: %d checks, %d not_applicable" % (len(m["checks"]), len(m["not_applicable"])))


if __name__ == "__main__":
    main()
