"""C01: see props/cluster.py (one recorded trace family, this property's own formulas in Trace_Cluster.tla); design level: the
node-level instances MC_LH4* (props/specreplay.py) and the abstract safety argument LHAbstract.tla (props/abstract.py)."""
from props import cluster, abstract

PID = "C01"


def run(tier, seed):
    return cluster.simple_check(PID, tier, seed, extra=lambda rep, tier, seed: abstract.design(rep, tier))


def replay(path, seed):
    return cluster.simple_replay(PID, path, seed)
