---------------------------- MODULE Trace_SeedFmt ----------------------------
(* P4 for the content of random-seed shares (C03: what correct nodes sign and verify must be the same bytes on every node and   *)
(* at every moment): every line is one seed formatted by the real RandomSeedToBytes, with the text it returned, whether that     *)
(* result was still the same after further calls on this goroutine and on others, and CalculateRandomSeed as a function.        *)
EXTENDS Naturals, Sequences, TLC, Json, IOUtils
Trace == ndJsonDeserialize(IOEnv.VERIF_TRACE)
VARIABLE l
Init == l = 1
Next == l < Len(Trace) /\ l' = l + 1
Chk(cond, tag) == cond \/ PrintT(<<"VERIF_BAD", tag, l>>)
LineOK == LET e == Trace[l] IN
  CASE e.op = "fmt" -> /\ Chk(~e.panic, "c03_seed_function_panicked")
                       /\ Chk(e.out = e.seed, "c03_seed_content_is_not_the_decimal_seed")          \* (both are decimal strings)
                       /\ Chk(e.stable, "c03_seed_content_changed_after_it_was_returned")
                       /\ Chk(e.conc_stable, "c03_seed_content_changed_by_another_goroutine")
                       /\ Chk(e.sig_untouched /\ e.calc_same, "c03_seed_of_a_signature_is_not_a_function_of_its_bytes")
    [] e.op = "hang" -> Chk(FALSE, "c03_seed_function_did_not_return")
    [] OTHER -> Chk(FALSE, "unknown_op")
=============================================================================
