CONSTANTS MaxView = 1 ByzBudget = 4 Blocks <- cBlocks Hdr <- cHdr Dev = {} Ablate = {"p_sig"}
INIT Init
NEXT Next
VIEW View
INVARIANTS Agreement ExternalValidity NoRejectedCommitted NoEquivocation
CHECK_DEADLOCK FALSE
