------------------------------ MODULE Trace_Wire ------------------------------
EXTENDS Wire, TLC, Json, IOUtils
Trace == ndJsonDeserialize(IOEnv.VERIF_TRACE)
VARIABLE l
Init == l = 1
Chk(cond, tag) == cond \/ PrintT(<<"VERIF_BAD", tag, l>>)
Next == /\ l <= Len(Trace) /\ l' = l + 1
        /\ LET e == Trace[l] IN
           /\ Chk(e.before = e.after, "c20_field_changed")
           /\ Chk(e.after = e.after2, "c20_parse_not_deterministic")
           /\ Chk(Len(e.vb) = Len(e.va) /\ \A i \in DOMAIN e.vb : e.vb[i] => e.va[i], "c20_signature_lost")
           /\ Chk(e.big \/ ShapeOK(e.shape), "c20_shape_outside_grammar")
=============================================================================
