CONSTANTS N = 7 MaxView = 3 NBlocks = 2 Byz <- Byz7 Dev <- NoDev W <- W7
INIT Init
NEXT Next
INVARIANTS Agreement IndInv
CHECK_DEADLOCK FALSE
