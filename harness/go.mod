module verifharness

go 1.12

require github.com/orbs-network/lean-helix-go v0.0.0

replace github.com/orbs-network/lean-helix-go => /repo
