----------------------------- MODULE LHAbstract -----------------------------
(* The SAFETY ARGUMENT of Lean Helix for one height, with the messages abstracted away: what a correct member has        *)
(* accepted, prepared, voted and decided per view, and what a Byzantine member of weight <= f can make correct members    *)
(* believe.  It is the design-level counterpart of LHNode.tla (which is shaped like the code and is the one bound to the    *)
(* code): small enough to be explored exhaustively over FOUR views and weighted committees (MC_LeanHelix reaches views     *)
(* 0..1), and typed for Apalache so that its lemmas can be checked as an inductive invariant (LHAbstractInd.tla).           *)
(*                                                                                                                         *)
(* State of correct member n (members are 0..N-1, the leader of view v is v % N, blocks are 1..NBlocks, 0 = none):        *)
(*   view[n]      its current view                                                                                         *)
(*   acc[n][v]    the block it accepted in view v: it proposed it as the leader of v, or sent PREPARE for it               *)
(*   prep[n][v]   it held a prepared certificate for acc[n][v] in view v (and sent COMMIT)                                  *)
(*   dec[n]       the block it committed                                                                                    *)
(*   voted[n][v]  it sent a VIEW_CHANGE vote for view v (timing out of v - 1), reporting the lock                            *)
(*   vpv[n][v], vpb[n][v]   (view, block) of its highest prepared certificate at that moment, or (-1, 0)                    *)
(* A Byzantine member is not represented by state: whatever it could send is assumed sent.  Its PREPAREs and COMMITs count  *)
(* for every (view, block); as a leader it signs every block; as a voter it may claim any lock for which a prepared        *)
(* certificate can be assembled (PrepQuorum) - signatures cannot be forged, so it cannot claim more.                        *)
(*                                                                                                                         *)
(* Dev = {"h2"} adds the deviation of the known finding H2 (a member that timed out into view v > 0 accepts the leader's    *)
(* bare PREPREPARE without a NEW_VIEW certificate): TLC then finds the fork, with Dev = {} agreement holds.                 *)
EXTENDS Integers, FiniteSets
CONSTANTS
  \* @type: Int;
  N,
  \* @type: Int;
  MaxView,
  \* @type: Int;
  NBlocks,
  \* @type: Set(Int);
  Byz,
  \* @type: Set(Str);
  Dev

Node == 0..(N - 1)
Corr == Node \ Byz
Views == 0..MaxView
Block == 1..NBlocks
Ldr(v) == v % N

CONSTANTS
  \* @type: Int -> Int;
  W                \* weights of the members 0..N-1 (N <= 7)
\* an explicit sum (no recursion, no fold: TLC and Apalache both evaluate it); S is a set of members, so W is applied inside its domain only
Weight(S) == (IF 0 \in S THEN W[0] ELSE 0) + (IF 1 \in S THEN W[1] ELSE 0) + (IF 2 \in S THEN W[2] ELSE 0) + (IF 3 \in S THEN W[3] ELSE 0)
           + (IF 4 \in S THEN W[4] ELSE 0) + (IF 5 \in S THEN W[5] ELSE 0) + (IF 6 \in S THEN W[6] ELSE 0)
WTotal == Weight(Node)
F == (WTotal - 1) \div 3
Q == WTotal - F
IsQuorum(S) == Weight(S) >= Q

VARIABLES
  \* @type: Int -> Int;
  view,
  \* @type: Int -> (Int -> Int);
  acc,
  \* @type: Int -> (Int -> Bool);
  prep,
  \* @type: Int -> Int;
  dec,
  \* @type: Int -> (Int -> Bool);
  voted,
  \* @type: Int -> (Int -> Int);
  vpv,
  \* @type: Int -> (Int -> Int);
  vpb,
  \* @type: Int -> Int;
  prop          \* the block the CORRECT leader of a view proposed (0: none yet; views led by a Byzantine member: unused)
vars == <<view, acc, prep, dec, voted, vpv, vpb, prop>>

\* ---- what can be shown to a correct member
LeaderSigned(v, b) == Ldr(v) \in Byz \/ prop[v] = b
Accepters(v, b) == {m \in Corr : acc[m][v] = b}
\* a prepared certificate for (v, b) can be assembled: the leader's signed proposal and PREPAREs of quorum weight (leader included)
PrepQuorum(v, b) == LeaderSigned(v, b) /\ IsQuorum(Accepters(v, b) \union Byz)
Preparers(v, b) == {m \in Corr : prep[m][v] /\ acc[m][v] = b}
CommitQuorum(v, b) == IsQuorum(Preparers(v, b) \union Byz)

\* the NEW_VIEW of view v may propose b: some quorum of voters S (correct ones really voted; Byzantine ones claim what they can
\* prove) whose highest lock is for b, or holds no lock at all
Justified(v, b) ==
  \E S \in SUBSET Node :
    /\ IsQuorum(S)
    /\ \A n \in S \ Byz : voted[n][v]
    /\ \/ \A n \in S \ Byz : vpv[n][v] = -1                                                     \* no correct voter in S is locked: fresh block
       \/ \E n \in S \ Byz : /\ vpv[n][v] >= 0 /\ vpb[n][v] = b                                  \* the highest lock among the correct voters
                              /\ \A m \in S \ Byz : vpv[m][v] <= vpv[n][v]
       \/ /\ S \intersect Byz # {}                                                                \* a Byzantine voter's provable claim tops them
          /\ \E pv \in Views : /\ pv < v /\ PrepQuorum(pv, b)
                               /\ \A m \in S \ Byz : vpv[m][v] <= pv

\* ---- actions of correct member n
IsLockView(n, lv) == IF lv = -1 THEN \A u \in Views : ~prep[n][u]
                     ELSE lv \in Views /\ prep[n][lv] /\ \A w \in Views : prep[n][w] => w <= lv
Timeout(n) ==
  /\ dec[n] = 0 /\ view[n] < MaxView
  /\ view' = [view EXCEPT ![n] = view[n] + 1]
  /\ \E lv \in -1..MaxView :
       /\ IsLockView(n, lv)
       /\ voted' = [voted EXCEPT ![n][view[n] + 1] = TRUE]
       /\ vpv' = [vpv EXCEPT ![n][view[n] + 1] = lv]
       /\ vpb' = [vpb EXCEPT ![n][view[n] + 1] = IF lv >= 0 THEN acc[n][lv] ELSE 0]
  /\ UNCHANGED <<acc, prep, dec, prop>>

\* the correct leader of view v proposes (view 0: at once; v > 0: elected by a quorum of votes, possibly jumping ahead)
LeaderPropose(n, v, b) ==
  /\ dec[n] = 0 /\ Ldr(v) = n /\ prop[v] = 0 /\ acc[n][v] = 0
  /\ IF v = 0 THEN view[n] = 0 ELSE view[n] <= v /\ Justified(v, b)
  /\ view' = [view EXCEPT ![n] = v]
  /\ prop' = [prop EXCEPT ![v] = b]
  /\ acc' = [acc EXCEPT ![n][v] = b]
  /\ UNCHANGED <<prep, dec, voted, vpv, vpb>>

\* a follower accepts the proposal of view v (and sends PREPARE): view 0 by PREPREPARE, above 0 by a NEW_VIEW certificate
Accept(n, v, b) ==
  /\ dec[n] = 0 /\ Ldr(v) # n /\ acc[n][v] = 0 /\ LeaderSigned(v, b)
  /\ \/ v = 0 /\ view[n] = 0
     \/ v > 0 /\ view[n] <= v /\ Justified(v, b)
     \/ "h2" \in Dev /\ v > 0 /\ view[n] = v                    \* H2: bare PREPREPARE in the view the member timed out into
  /\ view' = [view EXCEPT ![n] = v]
  /\ acc' = [acc EXCEPT ![n][v] = b]
  /\ UNCHANGED <<prep, dec, voted, vpv, vpb, prop>>

BecomePrepared(n) ==
  LET v == view[n] IN
  /\ dec[n] = 0 /\ acc[n][v] # 0 /\ ~prep[n][v] /\ PrepQuorum(v, acc[n][v])
  /\ prep' = [prep EXCEPT ![n][v] = TRUE]
  /\ UNCHANGED <<view, acc, dec, voted, vpv, vpb, prop>>

\* COMMITs of any view are kept: a member that holds the block of (v, b) decides on a COMMIT quorum even after it left view v
Decide(n, v) ==
  /\ dec[n] = 0 /\ acc[n][v] # 0 /\ CommitQuorum(v, acc[n][v])
  /\ dec' = [dec EXCEPT ![n] = acc[n][v]]
  /\ UNCHANGED <<view, acc, prep, voted, vpv, vpb, prop>>

Init == /\ view = [n \in Corr |-> 0]
        /\ acc = [n \in Corr |-> [v \in Views |-> 0]]
        /\ prep = [n \in Corr |-> [v \in Views |-> FALSE]]
        /\ dec = [n \in Corr |-> 0]
        /\ voted = [n \in Corr |-> [v \in Views |-> FALSE]]
        /\ vpv = [n \in Corr |-> [v \in Views |-> -1]]
        /\ vpb = [n \in Corr |-> [v \in Views |-> 0]]
        /\ prop = [v \in Views |-> 0]
Next == \E n \in Corr :
          \/ Timeout(n) \/ BecomePrepared(n)
          \/ \E v \in Views : Decide(n, v) \/ \E b \in Block : LeaderPropose(n, v, b) \/ Accept(n, v, b)
Spec == Init /\ [][Next]_vars

\* ---- C01 and the lemmas it rests on
Agreement == \A a \in Corr, b \in Corr : (dec[a] # 0 /\ dec[b] # 0) => dec[a] = dec[b]

TypeOK == /\ view \in [Corr -> Views] /\ acc \in [Corr -> [Views -> 0..NBlocks]] /\ prep \in [Corr -> [Views -> BOOLEAN]]
          /\ dec \in [Corr -> 0..NBlocks] /\ prop \in [Views -> 0..NBlocks]
          /\ voted \in [Corr -> [Views -> BOOLEAN]] /\ vpv \in [Corr -> [Views -> -1..MaxView]] /\ vpb \in [Corr -> [Views -> 0..NBlocks]]
\* a member accepted only what the leader signed, in a view it reached, and above view 0 only what a certificate justifies (C07)
AcceptedIsSigned == \A n \in Corr, v \in Views : acc[n][v] # 0 =>
                       /\ LeaderSigned(v, acc[n][v]) /\ view[n] >= v
                       /\ ("h2" \notin Dev /\ v > 0) => Justified(v, acc[n][v])
LeaderProposesOnce == \A v \in Views : (Ldr(v) \in Corr /\ prop[v] # 0) => acc[Ldr(v)][v] = prop[v]
LeaderHoldsProposal == \A v \in Views : (Ldr(v) \in Corr /\ acc[Ldr(v)][v] # 0) => prop[v] = acc[Ldr(v)][v]
PreparedHasCertificate == \A n \in Corr, v \in Views : prep[n][v] => acc[n][v] # 0 /\ PrepQuorum(v, acc[n][v]) /\ view[n] >= v
\* C09 (voter side): a vote reports exactly the highest lock its sender held when it left the previous view
VotesReportTheLock == \A n \in Corr, v \in Views :
   IF voted[n][v]
   THEN /\ v > 0 /\ view[n] >= v /\ vpv[n][v] < v
        /\ vpv[n][v] >= 0 => prep[n][vpv[n][v]] /\ acc[n][vpv[n][v]] = vpb[n][v] /\ vpb[n][v] # 0
        /\ vpv[n][v] = -1 => vpb[n][v] = 0
        /\ \A u \in Views : (vpv[n][v] < u /\ u < v) => ~prep[n][u]
   ELSE vpv[n][v] = -1 /\ vpb[n][v] = 0
DecidedHasQuorum == \A n \in Corr : dec[n] # 0 => \E v \in Views : acc[n][v] = dec[n] /\ CommitQuorum(v, dec[n])
\* two prepared certificates of one view are for one block (quorum intersection + one PREPARE per view)
UniqueCertificatePerView == \A v \in Views, b \in Block, c \in Block : (PrepQuorum(v, b) /\ PrepQuorum(v, c)) => b = c
\* THE LOCK: once a block can gather a COMMIT quorum in view v, no other block is justified, accepted or certified above v
Locked == \A v \in Views, b \in Block : CommitQuorum(v, b) =>
            \A w \in Views : w > v =>
               /\ \A c \in Block : Justified(w, c) => c = b
               /\ \A n \in Corr : acc[n][w] \in {0, b}
LockedH2 == \A v \in Views, b \in Block : CommitQuorum(v, b) => \A w \in Views : w > v => \A n \in Corr : acc[n][w] \in {0, b}

Lemmas == /\ AcceptedIsSigned /\ LeaderProposesOnce /\ LeaderHoldsProposal /\ PreparedHasCertificate /\ VotesReportTheLock
          /\ DecidedHasQuorum /\ UniqueCertificatePerView
IndInv == TypeOK /\ Lemmas /\ Locked
=============================================================================
