"""C16: see props/runtime.py (Runtime.tla model checked; real runtime traces validated by Trace_Runtime.tla)."""
from props import runtime

PID = "C16"


def run(tier, seed):
    return runtime.simple_check(PID, tier, seed)


def replay(path, seed):
    return runtime.simple_replay(PID, path, seed)
