----------------------------- MODULE MC_Storage -----------------------------
(* Complete state graph of the message log for a small instance: every sequence of stores and   *)
(* clears over 2 heights x 2 views x 2 hashes x 2 senders, at most MaxEntries entries.           *)
EXTENDS Storage
CONSTANT MaxEntries
VARIABLE st
H == 1..2
V == 0..1
X == {"a", "b"}
S == {"p", "q"}
Msgs == [h : H, v : V, x : X, s : S]
Size(s) == Cardinality(s.pp) + Cardinality(s.ps) + Cardinality(s.cs) + Cardinality(s.vs)
Init == st = Empty
Store(k, m) == Size(st) < MaxEntries /\ st' = StoreR(st, k, m).st
Clear(h) == st' = ClearR(st, h)
Next == (\E k \in {"PP", "P", "C", "VC"}, m \in Msgs : Store(k, m)) \/ (\E h \in 0..3 : Clear(h))
Spec == Init /\ [][Next]_st
Inv == OneProposalPerView(st) /\ \A h \in H : Cardinality(LatestPP(st, h)) <= 1
\* a store never removes or replaces anything; only a clear shrinks the log, and only at its heights
StoresOnlyAdd == [][(\E k \in {"PP", "P", "C", "VC"}, m \in Msgs : Store(k, m)) => Grows(st, st')]_st
ClearIsExact == [][\A h \in 0..3 : Clear(h) => \A e \in st.pp \cup st.ps \cup st.cs : (e.h # h /\ e.h # h - 1) => (e \in st'.pp \cup st'.ps \cup st'.cs)]_st
\* the second proposal for a view never replaces the first
FirstProposalWins == [][\A p \in st.pp : (\E q \in st'.pp : q.h = p.h /\ q.v = p.v) => p \in st'.pp]_st
=============================================================================
