---------------------------- MODULE QuorumLemma ----------------------------
(* Unbounded arithmetic core of C06 (quorum intersection, quorum has honest, attainability),  *)
(* proved for ALL natural total weights with the TLA+ proof system (SMT back end).            *)
EXTENDS Integers, TLAPS
F(W) == (W - 1) \div 3
Q(W) == W - F(W)

THEOREM DivFacts == \A W \in Nat : W >= 1 => /\ 3 * F(W) <= W - 1
                                            /\ W - 1 < 3 * F(W) + 3
                                            /\ F(W) \in Nat
  BY SMT DEF F

\* two subsets of weight >= Q inside a committee of weight W overlap in more than f
THEOREM Intersect == \A W, a, b, i \in Nat :
    (W >= 1 /\ a >= Q(W) /\ b >= Q(W) /\ a + b - i <= W) => i > F(W)
  BY DivFacts, SMT DEF Q

\* a subset that reaches the quorum has more than f weight
THEOREM QuorumHasHonest == \A W, a \in Nat : (W >= 1 /\ a >= Q(W)) => a > F(W)
  BY DivFacts, SMT DEF Q

\* what is left after removing at most f weight is still a quorum
THEOREM Attainable == \A W, a \in Nat : (W >= 1 /\ a <= F(W) /\ a <= W) => W - a >= Q(W)
  BY DivFacts, SMT DEF Q
=============================================================================
