----------------------------- MODULE MC_LHLive -----------------------------
(* C05 at the design level: LHNode composed as in MC_LeanHelix, with a stabilisation point.            *)
(* Before GST: asynchrony - any delivery order, timeouts at will (views 0..PreMaxView), Byzantine       *)
(* deliveries.  The GST step requires what C05 presupposes (the correct members still deciding hold    *)
(* quorum weight) and may lose every message sent so far (dead).  After GST: every message among        *)
(* correct members is delivered before any election timer fires (a timeout is enabled only when no      *)
(* deliverable message has any effect), and - exponential timers - the members in the lowest view time *)
(* out first.  The Byzantine member keeps sending within its budget.                                    *)
(* Claim (C05): every behaviour after GST ends with all correct members decided, before view MaxView.   *)
(* Post-GST steps are progress steps (stores grow, views grow, budget shrinks), so the claim is checked *)
(* (a) as deadlock freedom + the invariant NoStall, and (b) as the temporal property Live under weak    *)
(* fairness of the next-state relation.                                                                  *)
EXTENDS MC_LeanHelix
CONSTANTS PreMaxView,   \* views reachable by timeouts before GST
          Canon         \* TRUE: after GST deliveries are explored in a canonical node order (see below)
VARIABLES gst, dead
lvars == <<mcvars, gst, dead>>
LView == <<nodes, net, bz, approved, decided, signed, gst, dead>>

AllStarted == \A n \in Honest : nodes[n].ns.h = H
Deciding == {n \in Honest : Active(n)}
Eff(n, m) == /\ Active(n) /\ nodes[n].ns.h = H /\ m.s # n /\ (m.k = "VC" => n \in m.to)
             /\ LET fr == Deliver(nodes[n], n, m, Propose(n, IF m.k = "VC" THEN m.v ELSE 0)) IN fr.ns # nodes[n].ns \/ fr.out # <<>>
Quiet == \A n \in Honest : \A m \in net \ dead : ~Eff(n, m)
MinView == CHOOSE v \in 0..MaxView : (\E n \in Deciding : nodes[n].ns.view = v) /\ \A n \in Deciding : nodes[n].ns.view >= v

LStart(n) == Start(n) /\ UNCHANGED <<gst, dead>>
\* Canon: deliveries of messages already in the network to DIFFERENT correct members commute (each changes only the
\* receiver's state and adds to the network), and NoStall / Agreement / deadlock are about what persists; so after GST it is
\* enough to let the lowest member that has an effective pending message go first - the order of the messages one member
\* handles stays free.  The Byzantine member does not commute with them (what it can build depends on what was sent), so
\* under Canon it is RESTRICTED to act before GST and at quiet points after it (stated limit; Canon = FALSE lifts it).
Busy(n) == \E m \in net \ dead : Eff(n, m)
Rank(n) == CHOOSE i \in DOMAIN Hdr.nodes : Hdr.nodes[i] = n
Turn(n) == ~(gst /\ Canon) \/ \A k \in Honest : Busy(k) => Rank(k) >= Rank(n)
LRecv(n) == Turn(n) /\ \E m \in net \ dead : m.s # n /\ Recv(n, m) /\ UNCHANGED <<hdr, bz, gst, dead>>
LByz(n)  == bz < ByzBudget /\ ((gst /\ Canon) => Quiet) /\ \E m \in ByzAll : Recv(n, m) /\ bz' = bz + 1 /\ UNCHANGED <<hdr, gst, dead>>
LTime(n) == /\ Active(n)
            /\ IF gst THEN Quiet /\ nodes[n].ns.view = MinView ELSE nodes[n].ns.view < PreMaxView
            /\ Time(n) /\ UNCHANGED <<gst, dead>>
GoGST == /\ ~gst /\ AllStarted /\ IsQuorum(H, Deciding)
         /\ gst' = TRUE /\ dead' \in {{}, net}
         /\ ev' = [t |-> "gst", lost |-> (dead' # {})]
         /\ UNCHANGED <<hdr, nodes, net, bz, approved, decided, signed>>
Idle == (~gst \/ Deciding = {}) /\ UNCHANGED lvars      \* before GST nothing has to happen; after it only when all have decided
LNext == (\E n \in Honest : LStart(n) \/ LRecv(n) \/ LByz(n) \/ LTime(n)) \/ GoGST
LNextI == LNext \/ Idle
LInit == Init /\ gst = FALSE /\ dead = {}
LSpec == LInit /\ [][LNext \/ Idle]_lvars /\ WF_lvars(LNext)

NoStall == gst => \A n \in Deciding : nodes[n].ns.view < MaxView
Live == [](gst => <>(Deciding = {}))
\* reachability goal for replay into the real code: a behaviour in which messages were lost at GST and the height is still decided
NeverDecidedAfterLoss == ~(gst /\ dead # {} /\ Deciding = {})
=============================================================================
