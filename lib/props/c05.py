"""C05 liveness after stabilisation.  Real nodes go through a random adversarial asynchronous prefix (drops,
reordering, timeouts, Byzantine templates), are brought to one height, some correct members crash (the live
ones keep quorum weight), then the harness runs the timely fair schedule: every message among live correct
nodes is delivered (FIFO) before any election timer fires; timers fire only when nothing is in flight, earliest
deadline first on a simulated clock with timeouts 2^view and arbitrary phases left by the prefix; the Byzantine
members keep injecting.  TLC (Trace_Cluster) validates every step (conformance + all protocol properties) and
the C05 verdict: a commit of the deciding height within a bound of timer rounds derived from the view spread and
the number of faulty leaders, and every live acceptor of the committing view's (post-stabilisation) proposal
commits."""
import json
import vlib
from props import cluster

PID = "C05"


def _args(tier, seed):
    return {"liveness": True, "seed": seed, "runs": 150 if tier == "quick" else 6000, "prefix": 120, "nmax": 7, "cuts": 0, "allcuts": True}


def run(tier, seed):
    rep = vlib.Report(PID, tier, seed)
    rep.assumptions = list(cluster.ASSUME) + [
        "the timing model: message delays are zero relative to timers, timers last 2^view units, arbitrary phases at stabilisation",
        "the bound on timer rounds (2 x (sum over live nodes of (max view - own view + faulty members + 4)) + 10) is a heuristic stand-in for 'eventually'; measured worst case on the unchanged tree is 0.82 of the inner bound",
        "messages lost before stabilisation stay lost: acceptors of a proposal made before stabilisation are not required to commit"]
    cluster.judge(rep, PID, tier, seed, args=_args(tier, seed), what="asynchronous prefix then timely fair schedule")
    # design level: MC_LHLive.tla (LHNode + network + Byzantine member + stabilisation point) exhaustive, and its behaviours on real nodes
    from props import specreplay
    rep.assumptions.append("MC_LHLive: N=4, one Byzantine member (budget 1-2 deliveries), one block, timers abstracted to 'the members in the lowest view time out first, and only when no delivery has any effect'; Canon = TRUE explores deliveries to different members in one canonical order (they commute) and lets the Byzantine member act only before GST and at quiet points")
    specreplay.judge_live(rep, PID, tier, seed)
    return rep.finish()


def replay(path, seed):
    return cluster.simple_replay(PID, path, seed)
